// errsites.go: the error-flow table of pkg/sql/tokenizer, pkg/sql/parser and pkg/gosqlx (C13 / C11).
//
// Output (errflow.json next to static.json): a graph whose nodes are
//
//	fun      the error result of a function (pass-through: the union of what its returns can evaluate to)
//	leaf     a structured error built by a pkg/errors builder (code Exxxx), no cause kept
//	cause    a structured error that keeps its cause (WrapError / .WithCause / Error{Cause:})
//	wrapw    fmt.Errorf with %w (or an error type of the package with an Unwrap method): cause kept
//	rewrapv  a new error whose text is made from another error (%v / .Error()): cause dropped;
//	         code "" when the new error is not structured (fmt.Errorf("...%v", err))
//	bare     fmt.Errorf without error operand / errors.New
//	ctx      a poll of the context: ctx.Err()
//	unknown  an error value the translator cannot track (external callee, dynamic call, ...)
//
// and whose edges say which error values can flow into which node (SSA value flow of the error results,
// conservative: phis, local cells including captured ones, struct fields, globals, parameters via the static
// call graph).  "replaced" edges: the node is built on the err != nil branch of another error value that it
// does not use (that error is observed and thrown away).  "swallows": error results that flow nowhere.
package main

import (
	"encoding/json"
	"fmt"
	"go/constant"
	"go/token"
	"go/types"
	"os"
	"path/filepath"
	"sort"
	"strings"

	"go/ast"
	"golang.org/x/tools/go/callgraph"
	"golang.org/x/tools/go/packages"
	"golang.org/x/tools/go/ssa"
)

type EFNode struct {
	ID       int      `json:"id"`
	Kind     string   `json:"kind"`
	Pkg      string   `json:"pkg"`
	File     string   `json:"file"`
	Func     string   `json:"func"`
	Line     int      `json:"line"`
	Col      int      `json:"col"`
	Code     string   `json:"code,omitempty"`
	Callee   string   `json:"callee,omitempty"`
	Fmt      string   `json:"fmt,omitempty"`
	Inner    []int    `json:"inner"`
	Dropped  []int    `json:"dropped"`
	Replaced []int    `json:"replaced"`
	Limit    string   `json:"limit,omitempty"`
	API      bool     `json:"api,omitempty"`
	Hook     bool     `json:"hook,omitempty"`
	Result   int      `json:"result,omitempty"`
	Slice    bool     `json:"slice,omitempty"` // fun node of a []error result
	Returns  int      `json:"returns,omitempty"`
	Sig      string   `json:"sig"`
	Params   []string `json:"params,omitempty"` // fun nodes: parameter types
	Msg      string   `json:"msg,omitempty"`    // constant message / format text of a construction site
	key      interface{}
	fn       *ssa.Function
	instr    ssa.Instruction
	consumed map[ssa.Value]bool
}

type EFSwallow struct {
	Pkg    string `json:"pkg"`
	File   string `json:"file"`
	Func   string `json:"func"`
	Line   int    `json:"line"`
	Callee string `json:"callee"`
	Node   int    `json:"node"`
	How    string `json:"how"` // unused | tested-only | dropped
	Sig    string `json:"sig"`
}

type EFOut struct {
	Nodes    []*EFNode         `json:"nodes"`
	Swallows []EFSwallow       `json:"swallows"`
	Codes    map[string]string `json:"codes"`  // constant name -> code, from pkg/errors
	Limits   map[string]string `json:"limits"` // limit constants found
	Notes    []string          `json:"notes"`
}

type funKey struct {
	fn  *ssa.Function
	idx int
}

type fieldKey struct {
	t   *types.Named
	fld int
}

type efState struct {
	prog      *ssa.Program
	cg        *callgraph.Graph
	scope     map[*ssa.Package]string
	errPkg    *ssa.Package
	errType   *types.Named // errors.Error
	errIface  *types.Interface
	nodes     []*EFNode
	byKey     map[interface{}]*EFNode
	work      []*EFNode
	cellStore map[ssa.Value][]ssa.Value // Alloc / Global -> stored values
	fldStore  map[fieldKey][]ssa.Value
	bind      map[*ssa.FreeVar]ssa.Value
	limits    map[string]string // const value -> limit name
	visitedV  map[ssa.Value]bool
	notes     map[string]bool
	sums      map[*ssa.Function]*bsum
	fv        *funcVals                // enumeration of calls through function values (funcvals.go)
	fldLoads  map[fieldKey][]*ssa.UnOp // loads of struct fields, by (type, field)
	puse      map[puseKey]int          // paramUsed memo: 0 unknown, 1 in progress, 2 no, 3 yes
	kres      map[funKey]*keptRes      // keptResult memo
	feedsAPI  map[*EFNode]bool         // nodes whose values can arrive at an entry point
}

func errFlow(prog *ssa.Program, cg *callgraph.Graph, byPath map[string]*packages.Package, outJSON string) {
	s := &efState{prog: prog, cg: cg, scope: map[*ssa.Package]string{}, byKey: map[interface{}]*EFNode{},
		cellStore: map[ssa.Value][]ssa.Value{}, fldStore: map[fieldKey][]ssa.Value{}, bind: map[*ssa.FreeVar]ssa.Value{},
		limits: map[string]string{}, visitedV: map[ssa.Value]bool{}, notes: map[string]bool{}, sums: map[*ssa.Function]*bsum{},
		fldLoads: map[fieldKey][]*ssa.UnOp{}, puse: map[puseKey]int{}, kres: map[funKey]*keptRes{}}
	s.fv = newFuncVals(prog, cg)
	s.errIface = types.Universe.Lookup("error").Type().Underlying().(*types.Interface)
	for _, short := range []string{"pkg/sql/tokenizer", "pkg/sql/parser", "pkg/gosqlx"} {
		if p := byPath[mod+"/"+short]; p != nil {
			if sp := prog.Package(p.Types); sp != nil {
				s.scope[sp] = short
			}
		}
	}
	out := &EFOut{Codes: map[string]string{}, Limits: map[string]string{}}
	if p := byPath[mod+"/pkg/errors"]; p != nil {
		s.errPkg = prog.Package(p.Types)
		if tn, ok := p.Types.Scope().Lookup("Error").(*types.TypeName); ok {
			s.errType, _ = tn.Type().(*types.Named)
		}
		for _, n := range p.Types.Scope().Names() {
			if c, ok := p.Types.Scope().Lookup(n).(*types.Const); ok && c.Val().Kind() == constant.String && strings.HasPrefix(n, "ErrCode") {
				out.Codes[n] = constant.StringVal(c.Val())
			}
		}
	}
	// poll schedule constants (C11): not limits, reported next to them
	if p := byPath[mod+"/pkg/sql/parser"]; p != nil {
		if c, ok := p.Types.Scope().Lookup("contextPollInterval").(*types.Const); ok {
			out.Limits["contextPollInterval"] = c.Val().ExactString()
		} else if v := pollIntervalByRole(p); v != "" {
			// the constant was renamed or inlined: the interval is the constant modulus (or mask+1) the cursor's
			// advance method tests its position against before it polls
			out.Limits["contextPollInterval"] = v
		}
	}
	for short, names := range map[string][]string{"pkg/sql/tokenizer": {"MaxInputSize", "MaxTokens"}, "pkg/sql/parser": {"MaxRecursionDepth"}} {
		if p := byPath[mod+"/"+short]; p != nil {
			for _, n := range names {
				if c, ok := p.Types.Scope().Lookup(n).(*types.Const); ok {
					s.limits[c.Val().ExactString()] = n
					out.Limits[n] = c.Val().ExactString()
				}
			}
		}
	}
	// all functions of the scope packages (with closures)
	var fns []*ssa.Function
	for fn := range ssautilAll(prog) {
		if fn == nil || fn.Pkg == nil || len(fn.Blocks) == 0 {
			continue
		}
		if _, ok := s.scope[fn.Pkg]; ok {
			fns = append(fns, fn)
		}
	}
	// declared init functions (init#1 ...) are not package members: they are reached from the package initialiser
	for sp := range s.scope {
		if initf := sp.Func("init"); initf != nil {
			var visit func(f *ssa.Function)
			visit = func(f *ssa.Function) {
				if len(f.Blocks) > 0 {
					fns = append(fns, f)
				}
				for _, a := range f.AnonFuncs {
					visit(a)
				}
			}
			for _, b := range initf.Blocks {
				for _, ins := range b.Instrs {
					if c, ok := ins.(*ssa.Call); ok {
						if f := c.Common().StaticCallee(); f != nil && f.Pkg == sp && strings.HasPrefix(f.Name(), "init#") {
							visit(f)
						}
					}
				}
			}
		}
	}
	sort.Slice(fns, func(i, j int) bool {
		a, b := prog.Fset.Position(fns[i].Pos()), prog.Fset.Position(fns[j].Pos())
		if a.Filename != b.Filename {
			return a.Filename < b.Filename
		}
		if a.Offset != b.Offset {
			return a.Offset < b.Offset
		}
		return fns[i].String() < fns[j].String()
	})
	// index stores
	for _, fn := range fns {
		for _, b := range fn.Blocks {
			for _, ins := range b.Instrs {
				switch x := ins.(type) {
				case *ssa.Store:
					s.indexStore(x.Addr, x.Val)
				case *ssa.MakeClosure:
					cf := x.Fn.(*ssa.Function)
					for i, fv := range cf.FreeVars {
						if i < len(x.Bindings) {
							s.bind[fv] = x.Bindings[i]
						}
					}
				case *ssa.UnOp:
					if fa, ok := x.X.(*ssa.FieldAddr); ok && x.Op == token.MUL {
						if nt, ok := deref(fa.X.Type()).(*types.Named); ok {
							s.fldLoads[fieldKey{nt, fa.Field}] = append(s.fldLoads[fieldKey{nt, fa.Field}], x)
						}
					}
				}
			}
		}
	}
	// stores into globals from package init functions
	for sp := range s.scope {
		if initf := sp.Func("init"); initf != nil {
			for _, b := range initf.Blocks {
				for _, ins := range b.Instrs {
					if st, ok := ins.(*ssa.Store); ok {
						s.indexStore(st.Addr, st.Val)
					}
				}
			}
		}
	}
	// roots: every error (or []error) result of every function
	for _, fn := range fns {
		if fn.Synthetic != "" {
			continue
		}
		res := fn.Signature.Results()
		for i := 0; i < res.Len(); i++ {
			if s.isErrorType(res.At(i).Type()) || s.isErrSlice(res.At(i).Type()) {
				s.funNode(fn, i)
			}
		}
	}
	for len(s.work) > 0 {
		n := s.work[len(s.work)-1]
		s.work = s.work[:len(s.work)-1]
		s.fill(n)
	}
	// replaced edges and swallows
	s.replaceAndSwallow(fns, out)
	for len(s.work) > 0 {
		n := s.work[len(s.work)-1]
		s.work = s.work[:len(s.work)-1]
		s.fill(n)
	}
	s.finish(out)
	b, _ := json.MarshalIndent(out, "", " ")
	path := filepath.Join(filepath.Dir(outJSON), "errflow.json")
	if strings.HasSuffix(outJSON, ".tmp") {
		// written directly under its final name: the staging code keys on static.json only
		path = filepath.Join(filepath.Dir(outJSON), "errflow.json")
	}
	if err := os.WriteFile(path, b, 0o644); err != nil {
		panic(err)
	}
}

func ssautilAll(prog *ssa.Program) map[*ssa.Function]bool {
	seen := map[*ssa.Function]bool{}
	var visit func(f *ssa.Function)
	visit = func(f *ssa.Function) {
		if f == nil || seen[f] {
			return
		}
		seen[f] = true
		for _, a := range f.AnonFuncs {
			visit(a)
		}
	}
	for _, p := range prog.AllPackages() {
		for _, m := range p.Members {
			switch x := m.(type) {
			case *ssa.Function:
				visit(x)
			case *ssa.Type:
				for _, T := range []types.Type{x.Type(), types.NewPointer(x.Type())} {
					ms := prog.MethodSets.MethodSet(T)
					for i := 0; i < ms.Len(); i++ {
						visit(prog.MethodValue(ms.At(i)))
					}
				}
			}
		}
	}
	return seen
}

func (s *efState) isErrorType(t types.Type) bool {
	if t == nil {
		return false
	}
	if _, ok := t.Underlying().(*types.Interface); ok {
		return types.Identical(t.Underlying(), s.errIface)
	}
	return false
}

// errorish: the interface error, or a concrete type implementing it
func (s *efState) errorish(t types.Type) bool {
	if t == nil {
		return false
	}
	if s.isErrorType(t) {
		return true
	}
	if _, ok := t.Underlying().(*types.Interface); ok {
		return false
	}
	return types.Implements(t, s.errIface)
}

func (s *efState) isErrSlice(t types.Type) bool {
	sl, ok := t.Underlying().(*types.Slice)
	return ok && s.isErrorType(sl.Elem())
}

func (s *efState) cell(v ssa.Value) ssa.Value {
	for i := 0; i < 8; i++ {
		fv, ok := v.(*ssa.FreeVar)
		if !ok {
			break
		}
		b, ok := s.bind[fv]
		if !ok {
			break
		}
		v = b
	}
	return v
}

func (s *efState) indexStore(addr, val ssa.Value) {
	addr = s.cell(addr)
	switch a := addr.(type) {
	case *ssa.Alloc, *ssa.Global:
		s.cellStore[a] = append(s.cellStore[a], val)
	case *ssa.FieldAddr:
		if nt, ok := deref(a.X.Type()).(*types.Named); ok {
			k := fieldKey{nt, a.Field}
			s.fldStore[k] = append(s.fldStore[k], val)
		}
		// a store into a field of a local struct cell is also a store "into" that cell (composite literals)
		if al, ok := s.cell(a.X).(*ssa.Alloc); ok {
			s.cellStore[fieldCell{al, a.Field}] = append(s.cellStore[fieldCell{al, a.Field}], val)
		}
	case *ssa.IndexAddr:
		if al, ok := s.cell(a.X).(*ssa.Alloc); ok {
			s.cellStore[elemCell{al}] = append(s.cellStore[elemCell{al}], val)
		}
	}
}

// pseudo-values used as keys of cellStore
type fieldCell struct {
	al  *ssa.Alloc
	fld int
}

func (fieldCell) Name() string                  { return "fieldcell" }
func (fieldCell) String() string                { return "fieldcell" }
func (fieldCell) Type() types.Type              { return nil }
func (fieldCell) Parent() *ssa.Function         { return nil }
func (fieldCell) Referrers() *[]ssa.Instruction { return nil }
func (fieldCell) Pos() token.Pos                { return token.NoPos }

type elemCell struct{ al *ssa.Alloc }

func (elemCell) Name() string                  { return "elemcell" }
func (elemCell) String() string                { return "elemcell" }
func (elemCell) Type() types.Type              { return nil }
func (elemCell) Parent() *ssa.Function         { return nil }
func (elemCell) Referrers() *[]ssa.Instruction { return nil }
func (elemCell) Pos() token.Pos                { return token.NoPos }

func (s *efState) shortPkg(fn *ssa.Function) string {
	if fn != nil && fn.Pkg != nil {
		if sh, ok := s.scope[fn.Pkg]; ok {
			return sh
		}
		return fn.Pkg.Pkg.Path()
	}
	if w := wrappedMethod(fn); w != nil && w != fn && w.Pkg != nil {
		return s.shortPkg(w) // a synthetic wrapper: the package of the method it wraps
	}
	return ""
}

func (s *efState) newNode(key interface{}, kind string, fn *ssa.Function, pos token.Pos) *EFNode {
	if n, ok := s.byKey[key]; ok {
		return n
	}
	p := s.prog.Fset.Position(pos)
	n := &EFNode{Kind: kind, key: key, fn: fn, File: filepath.Base(p.Filename), Line: p.Line, Col: p.Column, consumed: map[ssa.Value]bool{}}
	if fn != nil {
		n.Pkg = s.shortPkg(fn)
		n.Func = fnName(rootFn(fn))
		if fn.Parent() != nil {
			n.Func += "$" + strings.TrimPrefix(fn.Name(), rootFn(fn).Name()+"$")
		}
	}
	s.byKey[key] = n
	s.nodes = append(s.nodes, n)
	n.ID = len(s.nodes)
	s.work = append(s.work, n)
	return n
}

func (s *efState) funNode(fn *ssa.Function, idx int) *EFNode {
	k := funKey{fn, idx}
	if n, ok := s.byKey[k]; ok {
		return n
	}
	n := s.newNode(k, "fun", fn, fn.Pos())
	n.Result = idx
	n.Slice = s.isErrSlice(fn.Signature.Results().At(idx).Type())
	file := s.prog.Fset.Position(fn.Pos()).Filename
	n.Hook = strings.HasPrefix(filepath.Base(file), "verif_hooks")
	if fn.Parent() == nil && fn.Synthetic == "" && !n.Hook && isExportedFn(fn) {
		n.API = true
	}
	ps := fn.Signature.Params()
	for i := 0; i < ps.Len(); i++ {
		n.Params = append(n.Params, types.TypeString(ps.At(i).Type(), func(p *types.Package) string { return p.Name() }))
	}
	return n
}

func isExportedFn(fn *ssa.Function) bool {
	if fn.Object() == nil || !fn.Object().Exported() {
		return false
	}
	if recv := fn.Signature.Recv(); recv != nil {
		if nt, ok := deref(recv.Type()).(*types.Named); ok {
			return nt.Obj().Exported()
		}
		return false
	}
	return true
}

// fill computes the edges of a node
func (s *efState) fill(n *EFNode) {
	switch k := n.key.(type) {
	case funKey:
		for _, b := range k.fn.Blocks {
			for _, ins := range b.Instrs {
				if r, ok := ins.(*ssa.Return); ok && k.idx < len(r.Results) {
					if c, ok := r.Results[k.idx].(*ssa.Const); ok && c.IsNil() {
						continue
					}
					n.Returns++
					n.Inner = append(n.Inner, s.flow(r.Results[k.idx], n)...)
				}
			}
		}
	case *ssa.Call:
		s.fillCall(n, k)
	case *ssa.MakeInterface, *ssa.Alloc:
		s.fillOther(n)
	}
}

func (s *efState) ids(ns []*EFNode) []int {
	out := make([]int, len(ns))
	for i, n := range ns {
		out[i] = s.indexOf(n)
	}
	return out
}

func (s *efState) indexOf(n *EFNode) int {
	return n.ID // provisional id = 1 + position in s.nodes (renumbered in finish)
}

// flow: the nodes an error-typed (or []error-typed) SSA value can evaluate to
func (s *efState) flow(v ssa.Value, consumer *EFNode) []int {
	seen := map[ssa.Value]bool{}
	set := map[*EFNode]bool{}
	s.dfs(v, seen, set)
	if consumer != nil {
		for x := range seen {
			consumer.consumed[x] = true
		}
	}
	var ns []*EFNode
	for n := range set {
		ns = append(ns, n)
	}
	out := s.ids(ns)
	sort.Ints(out)
	return out
}

func (s *efState) unknown(v ssa.Value, why string, set map[*EFNode]bool) {
	var fn *ssa.Function
	pos := v.Pos()
	if ins, ok := v.(ssa.Instruction); ok {
		fn = ins.Parent()
		if pos == token.NoPos {
			pos = fn.Pos()
		}
	} else if p, ok := v.(*ssa.Parameter); ok {
		fn = p.Parent()
	}
	key := "unknown:" + why + ":" + s.prog.Fset.Position(pos).String()
	n := s.newNode(key, "unknown", fn, pos)
	n.Callee = why
	set[n] = true
}

func (s *efState) dfs(v ssa.Value, seen map[ssa.Value]bool, set map[*EFNode]bool) {
	if v == nil || seen[v] {
		return
	}
	seen[v] = true
	s.visitedV[v] = true
	switch x := v.(type) {
	case *ssa.Const:
		return
	case *ssa.Phi:
		for _, e := range x.Edges {
			s.dfs(e, seen, set)
		}
	case *ssa.MakeInterface:
		s.dfsConcrete(x, seen, set)
	case *ssa.ChangeInterface:
		s.dfs(x.X, seen, set)
	case *ssa.ChangeType:
		s.dfs(x.X, seen, set)
	case *ssa.TypeAssert:
		s.dfs(x.X, seen, set)
	case *ssa.Extract:
		if c, ok := x.Tuple.(*ssa.Call); ok {
			s.dfsCall(c, x.Index, seen, set)
		} else if ta, ok := x.Tuple.(*ssa.TypeAssert); ok && x.Index == 0 {
			s.dfs(ta.X, seen, set)
		} else {
			s.unknown(v, "extract", set)
		}
	case *ssa.Call:
		s.dfsCall(x, 0, seen, set)
	case *ssa.UnOp:
		if x.Op != token.MUL {
			s.unknown(v, "unop", set)
			return
		}
		s.dfsLoad(x, seen, set)
	case *ssa.Parameter:
		s.dfsParam(x, seen, set)
	case *ssa.FreeVar:
		if b, ok := s.bind[x]; ok {
			s.dfs(b, seen, set)
		} else {
			s.unknown(v, "freevar", set)
		}
	case *ssa.Slice:
		// varargs / slice of a local array
		if al, ok := s.cell(x.X).(*ssa.Alloc); ok {
			for _, sv := range s.cellStore[elemCell{al}] {
				s.dfs(sv, seen, set)
			}
		} else {
			s.dfs(x.X, seen, set)
		}
	case *ssa.Alloc:
		// pointer to a local: used as a slice backing array or struct
		for _, sv := range s.cellStore[elemCell{x}] {
			s.dfs(sv, seen, set)
		}
	case *ssa.MakeSlice:
		return
	case *ssa.Lookup, *ssa.Index, *ssa.Field:
		s.unknown(v, "container", set)
	default:
		s.unknown(v, fmt.Sprintf("%T", v), set)
	}
}

// a concrete value converted to the error interface
func (s *efState) dfsConcrete(mi *ssa.MakeInterface, seen map[ssa.Value]bool, set map[*EFNode]bool) {
	t := mi.X.Type()
	if nt, ok := deref(t).(*types.Named); ok {
		if s.errType != nil && nt.Obj() == s.errType.Obj() {
			// *errors.Error: a builder call chain, or a literal
			s.dfsErrPtr(mi.X, seen, set)
			return
		}
		// an error type of the scope packages with an Unwrap method behaves like %w over its error fields
		if _, ok := nt.Underlying().(*types.Struct); ok && s.hasUnwrap(nt) {
			pos := mi.Pos()
			if pos == token.NoPos {
				pos = mi.X.Pos()
			}
			if pos == token.NoPos {
				for _, ins := range mi.Block().Instrs {
					if ins.Pos() != token.NoPos {
						pos = ins.Pos()
					}
					if ins == ssa.Instruction(mi) {
						break
					}
				}
			}
			n := s.newNode(mi, "wrapw", mi.Parent(), pos)
			n.Callee = nt.Obj().Name() + "{}"
			set[n] = true
			return
		}
	}
	s.unknown(mi, "concrete:"+types.TypeString(t, func(p *types.Package) string { return p.Name() }), set)
}

func (s *efState) hasUnwrap(nt *types.Named) bool {
	ms := types.NewMethodSet(types.NewPointer(nt))
	for i := 0; i < ms.Len(); i++ {
		if ms.At(i).Obj().Name() == "Unwrap" {
			return true
		}
	}
	return false
}

// value of type *errors.Error
func (s *efState) dfsErrPtr(v ssa.Value, seen map[ssa.Value]bool, set map[*EFNode]bool) {
	if seen[v] {
		return
	}
	seen[v] = true
	s.visitedV[v] = true
	switch x := v.(type) {
	case *ssa.Call:
		s.dfsCall(x, 0, seen, set)
	case *ssa.Phi:
		for _, e := range x.Edges {
			s.dfsErrPtr(e, seen, set)
		}
	case *ssa.Extract:
		if c, ok := x.Tuple.(*ssa.Call); ok {
			s.dfsCall(c, x.Index, seen, set)
		} else if ta, ok := x.Tuple.(*ssa.TypeAssert); ok {
			s.dfs(ta.X, seen, set)
		} else {
			s.unknown(v, "extract", set)
		}
	case *ssa.TypeAssert:
		s.dfs(x.X, seen, set)
	case *ssa.Alloc:
		// &errors.Error{...} literal
		n := s.newNode(x, "leaf", x.Parent(), x.Pos())
		n.Callee = "Error{}"
		set[n] = true
	case *ssa.UnOp:
		if x.Op == token.MUL {
			s.dfsLoad(x, seen, set)
		} else {
			s.unknown(v, "unop", set)
		}
	case *ssa.Parameter:
		s.dfsParam(x, seen, set)
	case *ssa.Const:
		return
	default:
		s.unknown(v, fmt.Sprintf("errptr:%T", v), set)
	}
}

func (s *efState) dfsLoad(x *ssa.UnOp, seen map[ssa.Value]bool, set map[*EFNode]bool) {
	addr := s.cell(x.X)
	switch a := addr.(type) {
	case *ssa.Alloc:
		for _, sv := range s.cellStore[a] {
			s.dfs(sv, seen, set)
		}
	case *ssa.Global:
		vals := s.cellStore[a]
		if len(vals) == 0 {
			s.unknown(x, "global:"+a.Name(), set)
		}
		for _, sv := range vals {
			s.dfs(sv, seen, set)
		}
	case *ssa.FieldAddr:
		if nt, ok := deref(a.X.Type()).(*types.Named); ok {
			vals := s.fldStore[fieldKey{nt, a.Field}]
			if len(vals) == 0 {
				s.unknown(x, "field", set)
			}
			for _, sv := range vals {
				s.dfs(sv, seen, set)
			}
		} else {
			s.unknown(x, "field", set)
		}
	case *ssa.IndexAddr:
		if al, ok := s.cell(a.X).(*ssa.Alloc); ok {
			for _, sv := range s.cellStore[elemCell{al}] {
				s.dfs(sv, seen, set)
			}
		} else {
			s.dfs(a.X, seen, set)
		}
	default:
		s.unknown(x, "load", set)
	}
}

func (s *efState) dfsParam(p *ssa.Parameter, seen map[ssa.Value]bool, set map[*EFNode]bool) {
	fn := p.Parent()
	idx := -1
	for i, q := range fn.Params {
		if q == p {
			idx = i
		}
	}
	found := false
	if idx >= 0 {
		// static call sites; a call of the pointer-receiver wrapper go/ssa makes for a value-receiver method enters
		// the method with the same arguments after the receiver (synthwrap.go): the wrapper is looked through, it
		// is never a caller of its own
		direct, wrapped := staticSites(s.cg, fn)
		for i, site := range append(direct, wrapped...) {
			c := site.Common()
			if c.IsInvoke() || idx >= len(c.Args) {
				continue
			}
			if _, isGo := site.(*ssa.Go); isGo {
				continue
			}
			if i >= len(direct) && idx == 0 && fn.Signature.Recv() != nil {
				s.unknown(p, "receiver-through-wrapper", set)
				continue
			}
			found = true
			s.dfs(c.Args[idx], seen, set)
		}
	}
	// calls through function values (only when the function is used as a value at all)
	dynOpen := ""
	if idx >= 0 && len(s.fv.uses[fn]) > 0 {
		_, dyn, open := s.fv.callSites(fn)
		dynOpen = open
		for _, c := range dyn {
			if _, isGo := c.(*ssa.Go); isGo {
				continue
			}
			if a, ok := argFor(c, fn, idx); ok {
				found = true
				s.dfs(a, seen, set)
			}
		}
	}
	// interface method calls that can run fn (enumerable ones: closedworld.go)
	if idx >= 0 {
		for _, site := range closedWorldOf(s.prog).invokeSites(s.fv.fns, fn) {
			if _, isGo := site.(*ssa.Go); isGo {
				continue
			}
			if a, ok := invokeArg(site, fn, idx); ok {
				found = true
				s.dfs(a, seen, set)
			} else {
				s.unknown(p, "receiver-of-invoke", set)
			}
		}
	}
	if _, inScope := s.scope[fn.Pkg]; inScope && fn.Parent() == nil && isExportedFn(fn) {
		s.unknown(p, "caller-supplied", set)
	} else if !found || dynOpen != "" {
		s.unknown(p, "param", set)
	}
}

// dynTargets: the callees of a call through a function value, all of them functions whose error results the table
// follows (functions of the module with a body, not the builders of pkg/errors); why != "" when the call stays unknown
func (s *efState) dynTargets(call ssa.CallInstruction) (ts []*ssa.Function, why string) {
	res := s.fv.callees(call)
	if res.open != "" {
		return nil, res.open
	}
	for _, t := range res.fns {
		if !inModule(t) || len(t.Blocks) == 0 || t.Pkg == nil {
			return nil, "callee outside the module: " + t.String()
		}
		if t.Pkg == s.errPkg {
			return nil, "error builder called through a function value: " + t.String()
		}
	}
	return res.fns, ""
}

func staticCallee(c *ssa.CallCommon) *ssa.Function {
	if f := c.StaticCallee(); f != nil {
		return f
	}
	return nil
}

func (s *efState) dfsCall(call *ssa.Call, resIdx int, seen map[ssa.Value]bool, set map[*EFNode]bool) {
	c := call.Common()
	if c.IsInvoke() {
		if c.Method.Name() == "Err" && strings.HasSuffix(c.Value.Type().String(), "context.Context") {
			n := s.newNode(call, "ctx", call.Parent(), call.Pos())
			n.Callee = "ctx.Err"
			set[n] = true
			return
		}
		if c.Method.Name() == "Unwrap" {
			s.dfs(c.Value, seen, set)
			return
		}
		// a method with an unexported name: the methods of that name in its package are all it can run (closedworld.go)
		if ts, ok := s.invokeTargets(c); ok {
			for _, t := range ts {
				set[s.funNode(t, resIdx)] = true
			}
			return
		}
		s.unknown(call, "invoke:"+c.Method.Name(), set)
		return
	}
	callee := staticCallee(c)
	if callee == nil {
		if _, ok := c.Value.(*ssa.Builtin); ok {
			// append(s, elems...)
			for _, a := range c.Args {
				s.dfs(a, seen, set)
			}
			return
		}
		// call through a function value: the functions it can evaluate to, when they can be enumerated
		// (funcvals.go: dispatch tables in package-level maps / slices / structs, function-typed fields,
		// closures in local / captured variables or handed on as parameters, method values)
		if ts, why := s.dynTargets(call); why == "" {
			for _, t := range ts {
				set[s.funNode(t, resIdx)] = true
			}
			return
		} else {
			pos := s.prog.Fset.Position(call.Pos())
			s.notes[fmt.Sprintf("call through a function value at %s:%d not resolved: %s", filepath.Base(pos.Filename), pos.Line, why)] = true
		}
		s.unknown(call, "dynamic-call", set)
		return
	}
	if _, ok := s.scope[callee.Pkg]; ok && callee.Pkg != nil {
		set[s.funNode(callee, resIdx)] = true
		return
	}
	if callee.Pkg != nil && callee.Pkg == s.errPkg {
		s.dfsErrPkgCall(call, callee, seen, set)
		return
	}
	full := callee.String()
	switch full {
	case "fmt.Errorf", "errors.New":
		n := s.newNode(call, "bare", call.Parent(), call.Pos())
		n.Callee = full
		set[n] = true
		return
	case "errors.Unwrap":
		s.dfs(c.Args[0], seen, set)
		return
	case "errors.Join":
		n := s.newNode(call, "wrapw", call.Parent(), call.Pos())
		n.Callee = full
		set[n] = true
		return
	}
	// instantiated or external function of the module / the standard library
	if callee.Pkg != nil && strings.HasPrefix(callee.Pkg.Pkg.Path(), mod) && len(callee.Blocks) > 0 {
		// another package of the module (keywords, models, metrics ...): follow it as a function node
		set[s.funNode(callee, resIdx)] = true
		return
	}
	s.unknown(call, "external:"+full, set)
}

// a call of a function or method of pkg/errors
func (s *efState) dfsErrPkgCall(call *ssa.Call, callee *ssa.Function, seen map[ssa.Value]bool, set map[*EFNode]bool) {
	c := call.Common()
	if callee.Signature.Recv() != nil {
		switch callee.Name() {
		case "WithContext", "WithHint":
			s.dfsErrPtr(c.Args[0], seen, set)
			return
		case "WithCause":
			n := s.newNode(call, "cause", call.Parent(), call.Pos())
			n.Callee = "WithCause"
			set[n] = true
			return
		case "Unwrap":
			s.dfs(c.Args[0], seen, set)
			return
		}
		if s.dfsPassThrough(call, callee, seen, set) {
			return
		}
		s.unknown(call, "errors-method:"+callee.Name(), set)
		return
	}
	if s.dfsPassThrough(call, callee, seen, set) {
		return
	}
	if !s.errorish(callee.Signature.Results().At(0).Type()) {
		s.unknown(call, "errors-func:"+callee.Name(), set)
		return
	}
	n := s.newNode(call, "leaf", call.Parent(), call.Pos())
	n.Callee = callee.Name()
	set[n] = true
}

// ---- builder summaries -------------------------------------------------------------------------------

type bsum struct {
	ok         bool
	code       string
	codeParam  int
	causeParam int
	selfParam  int // the result is the *Error parameter of this index, possibly decorated (With...): passthru.go
}

func (s *efState) summary(fn *ssa.Function) *bsum {
	if b, ok := s.sums[fn]; ok {
		return b
	}
	b := &bsum{codeParam: -1, causeParam: -1, selfParam: -1}
	s.sums[fn] = b
	if len(fn.Blocks) == 0 {
		return b
	}
	first := true
	okAll := true
	for _, blk := range fn.Blocks {
		for _, ins := range blk.Instrs {
			r, ok := ins.(*ssa.Return)
			if !ok || len(r.Results) == 0 {
				continue
			}
			code, cp, cause, self, ok2 := s.chain(r.Results[0], fn, map[ssa.Value]bool{})
			if !ok2 {
				okAll = false
				continue
			}
			if first {
				b.code, b.codeParam, b.causeParam, b.selfParam = code, cp, cause, self
				first = false
			} else if b.code != code || b.codeParam != cp || b.selfParam != self {
				okAll = false
			} else if cause >= 0 {
				b.causeParam = cause
			}
		}
	}
	b.ok = okAll && !first
	return b
}

func paramIndex(fn *ssa.Function, v ssa.Value) int {
	for i, p := range fn.Params {
		if ssa.Value(p) == v {
			return i
		}
	}
	return -1
}

// chain: resolve a *errors.Error-valued expression inside fn to (code const | code param, cause param)
func (s *efState) chain(v ssa.Value, fn *ssa.Function, seen map[ssa.Value]bool) (code string, codeParam, causeParam, selfParam int, ok bool) {
	codeParam, causeParam, selfParam = -1, -1, -1
	if seen[v] {
		return "", -1, -1, -1, false
	}
	seen[v] = true
	defer func() { delete(seen, v) }() // seen = the current path only: a value may be reached along several phi edges
	switch x := v.(type) {
	case *ssa.MakeInterface:
		return s.chain(x.X, fn, seen)
	case *ssa.Phi:
		first := true
		for _, e := range x.Edges {
			if seen[e] {
				continue
			}
			c, cp, ca, sp, o := s.chain(e, fn, seen)
			if !o {
				return "", -1, -1, -1, false
			}
			if first {
				code, codeParam, causeParam, selfParam, first = c, cp, ca, sp, false
			} else {
				if c != code || cp != codeParam || sp != selfParam {
					return "", -1, -1, -1, false
				}
				if ca >= 0 {
					causeParam = ca
				}
			}
		}
		return code, codeParam, causeParam, selfParam, !first
	case *ssa.Call:
		callee := staticCallee(x.Common())
		if callee == nil || callee.Pkg != s.errPkg {
			return "", -1, -1, -1, false
		}
		args := x.Common().Args
		if callee.Signature.Recv() != nil {
			switch callee.Name() {
			case "WithContext", "WithHint":
				return s.chain(args[0], fn, seen)
			case "WithCause":
				c, cp, _, sp, o := s.chain(args[0], fn, seen)
				return c, cp, paramIndex(fn, args[1]), sp, o
			}
			// any other method: by its own summary (a method that decorates and returns its receiver)
		}
		if callee.Name() == "NewError" {
			if k, ok := args[0].(*ssa.Const); ok && k.Value != nil && k.Value.Kind() == constant.String {
				return constant.StringVal(k.Value), -1, -1, -1, true
			}
			if pi := paramIndex(fn, args[0]); pi >= 0 {
				return "", pi, -1, -1, true
			}
			return "", -1, -1, -1, false
		}
		sub := s.summary(callee)
		if !sub.ok {
			return "", -1, -1, -1, false
		}
		if sub.selfParam >= 0 {
			// the callee hands back its *Error argument (decorated): the chain goes on in that argument
			if sub.selfParam >= len(args) {
				return "", -1, -1, -1, false
			}
			c, cp, ca, sp, o := s.chain(args[sub.selfParam], fn, seen)
			if o && sub.causeParam >= 0 && sub.causeParam < len(args) {
				ca = paramIndex(fn, args[sub.causeParam])
			}
			return c, cp, ca, sp, o
		}
		code = sub.code
		if sub.codeParam >= 0 {
			a := args[sub.codeParam]
			if k, ok := a.(*ssa.Const); ok && k.Value != nil && k.Value.Kind() == constant.String {
				code = constant.StringVal(k.Value)
			} else if pi := paramIndex(fn, a); pi >= 0 {
				codeParam = pi
			} else {
				return "", -1, -1, -1, false
			}
		}
		if sub.causeParam >= 0 {
			causeParam = paramIndex(fn, args[sub.causeParam])
		}
		return code, codeParam, causeParam, -1, true
	case *ssa.Parameter:
		// the builder decorates and hands back an *Error it was given (hinted(err, ..)): nothing in it may set the code
		if pi := paramIndex(fn, x); pi >= 0 && s.isErrPtr(x.Type()) && s.paramCodeStable(fn, x) {
			return "", -1, -1, pi, true
		}
		return "", -1, -1, -1, false
	case *ssa.Alloc:
		// &Error{Code: K, ...}
		for _, ref := range *x.Referrers() {
			if fa, ok := ref.(*ssa.FieldAddr); ok {
				st, _ := deref(fa.X.Type()).Underlying().(*types.Struct)
				if st != nil && st.Field(fa.Field).Name() == "Code" {
					for _, r2 := range *fa.Referrers() {
						if sto, ok := r2.(*ssa.Store); ok {
							if k, ok := sto.Val.(*ssa.Const); ok && k.Value != nil && k.Value.Kind() == constant.String {
								return constant.StringVal(k.Value), -1, -1, -1, true
							}
							if pi := paramIndex(fn, sto.Val); pi >= 0 {
								return "", pi, -1, -1, true
							}
						}
					}
				}
			}
		}
		return "", -1, -1, -1, false
	}
	return "", -1, -1, -1, false
}

// codeOfChain: the code of a *errors.Error value at a call site in the scope packages, plus the string / error
// operands that went into its construction (for taint), without creating nodes
func (s *efState) codeOfChain(v ssa.Value, seen map[ssa.Value]bool) (code string, strArgs []ssa.Value, ok bool) {
	if seen[v] {
		return "", nil, false
	}
	seen[v] = true
	defer func() { delete(seen, v) }()
	switch x := v.(type) {
	case *ssa.Call:
		callee := staticCallee(x.Common())
		if callee == nil || callee.Pkg != s.errPkg {
			return "", nil, false
		}
		args := x.Common().Args
		if callee.Signature.Recv() != nil {
			switch callee.Name() {
			case "WithContext", "WithHint", "WithCause":
				return s.codeOfChain(args[0], seen)
			}
			if sub := s.summary(callee); !sub.ok || sub.selfParam < 0 {
				return "", nil, false
			}
		}
		code, inner, ok := s.callCodeArgs(x, callee, seen)
		return code, append(append([]ssa.Value{}, args...), inner...), ok
	case *ssa.Phi:
		first := true
		for _, e := range x.Edges {
			if seen[e] {
				continue
			}
			c, a, o := s.codeOfChain(e, seen)
			if !o {
				return "", nil, false
			}
			if first {
				code, strArgs, first = c, a, false
			} else if c != code {
				return "", nil, false
			} else {
				strArgs = append(strArgs, a...)
			}
		}
		return code, strArgs, !first
	}
	return "", nil, false
}

// callCode: the code of a direct builder call
func (s *efState) callCode(call *ssa.Call, callee *ssa.Function) (string, bool) {
	code, _, ok := s.callCodeArgs(call, callee, map[ssa.Value]bool{})
	return code, ok
}

// callCodeArgs: callCode; inner = the operands of the construction behind a pass-through builder's *Error argument
func (s *efState) callCodeArgs(call *ssa.Call, callee *ssa.Function, seen map[ssa.Value]bool) (code string, inner []ssa.Value, ok bool) {
	args := call.Common().Args
	if callee.Name() == "NewError" {
		if k, ok := args[0].(*ssa.Const); ok && k.Value != nil && k.Value.Kind() == constant.String {
			return constant.StringVal(k.Value), nil, true
		}
		return "", nil, false
	}
	sub := s.summary(callee)
	if !sub.ok {
		return "", nil, false
	}
	if sub.selfParam >= 0 {
		if sub.selfParam >= len(args) {
			return "", nil, false
		}
		return s.codeOfChain(args[sub.selfParam], seen)
	}
	if sub.codeParam >= 0 {
		if k, ok := args[sub.codeParam].(*ssa.Const); ok && k.Value != nil && k.Value.Kind() == constant.String {
			return constant.StringVal(k.Value), nil, true
		}
		return "", nil, false
	}
	return sub.code, nil, true
}

// ---- constructor sites ---------------------------------------------------------------------------------

// varargs: the values stored into the variadic slice of a call
func (s *efState) varargs(v ssa.Value) []ssa.Value {
	sl, ok := v.(*ssa.Slice)
	if !ok {
		return nil
	}
	al, ok := sl.X.(*ssa.Alloc)
	if !ok {
		return nil
	}
	type iv struct {
		i int64
		v ssa.Value
	}
	var out []iv
	for _, ref := range *al.Referrers() {
		ia, ok := ref.(*ssa.IndexAddr)
		if !ok {
			continue
		}
		k, ok := ia.Index.(*ssa.Const)
		if !ok {
			continue
		}
		for _, r2 := range *ia.Referrers() {
			if st, ok := r2.(*ssa.Store); ok {
				out = append(out, iv{k.Int64(), st.Val})
			}
		}
	}
	sort.Slice(out, func(i, j int) bool { return out[i].i < out[j].i })
	vs := make([]ssa.Value, len(out))
	for i, o := range out {
		vs[i] = o.v
	}
	return vs
}

// underlying value of an interface conversion
func unwrapIface(v ssa.Value) ssa.Value {
	for {
		switch x := v.(type) {
		case *ssa.MakeInterface:
			v = x.X
		case *ssa.ChangeInterface:
			v = x.X
		default:
			return v
		}
	}
}

// verbs of a format string, one per consumed operand ("*" for width operands)
func fmtVerbs(f string) []string {
	var out []string
	for i := 0; i < len(f); i++ {
		if f[i] != '%' {
			continue
		}
		i++
		for i < len(f) && strings.ContainsRune("+-# 0123456789.[]*", rune(f[i])) {
			if f[i] == '*' {
				out = append(out, "*")
			}
			i++
		}
		if i < len(f) && f[i] != '%' {
			out = append(out, string(f[i]))
		}
	}
	return out
}

// strErrs: error values whose text goes into a string-valued expression
func (s *efState) strErrs(v ssa.Value, seen map[ssa.Value]bool, out *[]ssa.Value) {
	if v == nil || seen[v] {
		return
	}
	seen[v] = true
	switch x := v.(type) {
	case *ssa.Call:
		c := x.Common()
		if c.IsInvoke() {
			if c.Method.Name() == "Error" && s.errorish(c.Value.Type()) {
				*out = append(*out, c.Value)
			}
			return
		}
		callee := staticCallee(c)
		if callee == nil {
			return
		}
		switch callee.String() {
		case "fmt.Sprintf", "fmt.Sprint", "fmt.Sprintln":
			for _, a := range s.varargs(c.Args[len(c.Args)-1]) {
				u := unwrapIface(a)
				if s.errorish(u.Type()) {
					*out = append(*out, u)
				} else {
					s.strErrs(u, seen, out)
				}
			}
			return
		}
		if callee.Name() == "Error" && callee.Signature.Recv() != nil && len(c.Args) == 1 && s.errorish(c.Args[0].Type()) {
			*out = append(*out, c.Args[0])
			return
		}
		// a helper that formats: look through string arguments
		for _, a := range c.Args {
			if b, ok := a.Type().Underlying().(*types.Basic); ok && b.Info()&types.IsString != 0 {
				s.strErrs(a, seen, out)
			}
		}
	case *ssa.BinOp:
		s.strErrs(x.X, seen, out)
		s.strErrs(x.Y, seen, out)
	case *ssa.Phi:
		for _, e := range x.Edges {
			s.strErrs(e, seen, out)
		}
	case *ssa.MakeInterface:
		s.strErrs(x.X, seen, out)
	}
}

// constText: first constant string that goes into a string-valued expression (message / format text)
func constText(v ssa.Value, depth int) string {
	if depth > 4 || v == nil {
		return ""
	}
	switch x := v.(type) {
	case *ssa.Const:
		if x.Value != nil && x.Value.Kind() == constant.String {
			return constant.StringVal(x.Value)
		}
	case *ssa.Call:
		if f := staticCallee(x.Common()); f != nil && (f.String() == "fmt.Sprintf") && len(x.Common().Args) > 0 {
			return constText(x.Common().Args[0], depth+1)
		}
	case *ssa.BinOp:
		if t := constText(x.X, depth+1); t != "" {
			return t
		}
		return constText(x.Y, depth+1)
	case *ssa.MakeInterface:
		return constText(x.X, depth+1)
	}
	return ""
}

func (s *efState) fillCall(n *EFNode, call *ssa.Call) {
	c := call.Common()
	if f := staticCallee(c); f != nil && !c.IsInvoke() {
		for i, a := range c.Args {
			if f.Pkg == s.errPkg && f.Name() == "NewError" && i == 0 {
				continue
			}
			if types.Identical(a.Type(), types.Typ[types.String]) { // not the ErrorCode argument (a named string type)
				if t := constText(a, 0); t != "" {
					n.Msg = t
					break
				}
			}
		}
	}
	switch n.Kind {
	case "ctx", "unknown":
		return
	}
	callee := staticCallee(c)
	if callee == nil {
		return
	}
	selfIdx, causeIdx := s.causeAttacher(callee, len(c.Args))
	switch {
	case callee.String() == "errors.New":
		return
	case callee.String() == "errors.Join":
		for _, a := range s.varargs(c.Args[len(c.Args)-1]) {
			n.Inner = append(n.Inner, s.flow(a, n)...)
		}
	case callee.String() == "fmt.Errorf":
		if k, ok := c.Args[0].(*ssa.Const); ok && k.Value != nil {
			n.Fmt = constant.StringVal(k.Value)
		}
		verbs := fmtVerbs(n.Fmt)
		args := s.varargs(c.Args[len(c.Args)-1])
		wrapped := false
		for i, a := range args {
			u := unwrapIface(a)
			verb := "?"
			if i < len(verbs) {
				verb = verbs[i]
			}
			if s.errorish(u.Type()) {
				if verb == "w" {
					wrapped = true
					n.Inner = append(n.Inner, s.flow(a, n)...)
				} else {
					n.Dropped = append(n.Dropped, s.flow(a, n)...)
				}
			} else {
				var es []ssa.Value
				s.strErrs(u, map[ssa.Value]bool{}, &es)
				for _, e := range es {
					n.Dropped = append(n.Dropped, s.flow(e, n)...)
				}
			}
		}
		if wrapped {
			n.Kind = "wrapw"
		} else if len(n.Dropped) > 0 {
			n.Kind = "rewrapv"
		}
	case callee.Pkg == s.errPkg && selfIdx >= 0:
		// err.WithCause(cause), or a helper of pkg/errors that hands back its *Error argument with a cause attached
		code, args, ok := s.codeOfChain(c.Args[selfIdx], map[ssa.Value]bool{})
		if ok {
			n.Code = code
		} else {
			s.notes["code of WithCause receiver not resolved at "+s.prog.Fset.Position(call.Pos()).String()] = true
		}
		for _, a := range args {
			if types.Identical(a.Type(), types.Typ[types.String]) {
				if t := constText(a, 0); t != "" {
					n.Msg = t
					break
				}
			}
		}
		n.Inner = append(n.Inner, s.flow(c.Args[causeIdx], n)...)
		kept := map[ssa.Value]bool{}
		s.dfs(c.Args[causeIdx], kept, map[*EFNode]bool{})
		for _, a := range args {
			var es []ssa.Value
			s.strErrs(a, map[ssa.Value]bool{}, &es)
			for _, e := range es {
				if kept[e] {
					continue // the same error value is also kept as the cause: nothing is lost
				}
				n.Dropped = append(n.Dropped, s.flow(e, n)...)
			}
		}
	case callee.Pkg == s.errPkg:
		code, ok := s.callCode(call, callee)
		if ok {
			n.Code = code
		} else {
			s.notes["code of builder call not resolved at "+s.prog.Fset.Position(call.Pos()).String()] = true
		}
		sub := s.summary(callee)
		kept := map[ssa.Value]bool{}
		for i, a := range c.Args {
			if callee.Name() != "NewError" && sub.ok && i == sub.causeParam {
				n.Inner = append(n.Inner, s.flow(a, n)...)
				n.Kind = "cause"
				s.dfs(a, kept, map[*EFNode]bool{})
			}
		}
		for i, a := range c.Args {
			if callee.Name() != "NewError" && sub.ok && i == sub.causeParam {
				continue
			}
			u := unwrapIface(a)
			if s.errorish(u.Type()) {
				// an error handed to a builder that does not keep it as the cause
				if !kept[u] {
					n.Dropped = append(n.Dropped, s.flow(u, n)...)
				}
				continue
			}
			var es []ssa.Value
			s.strErrs(u, map[ssa.Value]bool{}, &es)
			for _, e := range es {
				if !kept[e] {
					n.Dropped = append(n.Dropped, s.flow(e, n)...)
				}
			}
		}
		if n.Kind == "leaf" && len(n.Dropped) > 0 {
			n.Kind = "rewrapv"
		}
		n.Limit = s.limitOf(call)
	}
}

// fill for non-call keyed nodes (struct literals converted to error)
func (s *efState) fillOther(n *EFNode) {
	switch k := n.key.(type) {
	case *ssa.MakeInterface:
		// wrapw over the error-typed fields of the literal
		if al, ok := k.X.(*ssa.Alloc); ok {
			st, _ := deref(al.Type()).Underlying().(*types.Struct)
			for i := 0; st != nil && i < st.NumFields(); i++ {
				if s.isErrorType(st.Field(i).Type()) {
					for _, sv := range s.cellStore[fieldCell{al, i}] {
						n.Inner = append(n.Inner, s.flow(sv, n)...)
					}
				}
			}
		} else if nt, ok := deref(k.X.Type()).(*types.Named); ok {
			st, _ := nt.Underlying().(*types.Struct)
			for i := 0; st != nil && i < st.NumFields(); i++ {
				if s.isErrorType(st.Field(i).Type()) {
					for _, sv := range s.fldStore[fieldKey{nt, i}] {
						n.Inner = append(n.Inner, s.flow(sv, n)...)
					}
				}
			}
		}
	case *ssa.Alloc:
		// &errors.Error{Code:..., Cause:...}
		st, _ := deref(k.Type()).Underlying().(*types.Struct)
		for i := 0; st != nil && i < st.NumFields(); i++ {
			switch st.Field(i).Name() {
			case "Code":
				for _, sv := range s.cellStore[fieldCell{k, i}] {
					if c, ok := sv.(*ssa.Const); ok && c.Value != nil && c.Value.Kind() == constant.String {
						n.Code = constant.StringVal(c.Value)
					}
				}
			case "Cause":
				for _, sv := range s.cellStore[fieldCell{k, i}] {
					n.Inner = append(n.Inner, s.flow(sv, n)...)
					n.Kind = "cause"
				}
			case "Message":
				for _, sv := range s.cellStore[fieldCell{k, i}] {
					var es []ssa.Value
					s.strErrs(sv, map[ssa.Value]bool{}, &es)
					for _, e := range es {
						n.Dropped = append(n.Dropped, s.flow(e, n)...)
					}
				}
			}
		}
		if n.Kind == "leaf" && len(n.Dropped) > 0 {
			n.Kind = "rewrapv"
		}
	}
}

// limitOf: the builder call sits on the true branch of a comparison (> or >=) against one of the limit constants
func (s *efState) limitOf(call *ssa.Call) string {
	b := call.Block()
	for depth := 0; depth < 2 && b != nil; depth++ {
		for _, p := range b.Preds {
			if len(p.Instrs) == 0 {
				continue
			}
			iff, ok := p.Instrs[len(p.Instrs)-1].(*ssa.If)
			if !ok || p.Succs[0] != b {
				continue
			}
			bo, ok := iff.Cond.(*ssa.BinOp)
			if !ok || (bo.Op != token.GTR && bo.Op != token.GEQ) {
				continue
			}
			for _, o := range []ssa.Value{bo.X, bo.Y} {
				if k, ok := o.(*ssa.Const); ok && k.Value != nil && k.Value.Kind() == constant.Int {
					if name, ok := s.limits[k.Value.ExactString()]; ok {
						return name
					}
				}
				// int64(len(x)) > MaxInputSize compiles to a conversion of the constant side sometimes
				if cv, ok := o.(*ssa.Convert); ok {
					if k, ok := cv.X.(*ssa.Const); ok && k.Value != nil && k.Value.Kind() == constant.Int {
						if name, ok := s.limits[k.Value.ExactString()]; ok {
							return name
						}
					}
				}
			}
		}
		if len(b.Preds) == 1 {
			b = b.Preds[0]
		} else {
			b = nil
		}
	}
	return ""
}

// ---- is an error value used by what is returned?  is an ignored result kept somewhere else? ----------------------

type puseKey struct {
	fn       *ssa.Function
	pi, ridx int
}

// callTargets: the functions of the module a call reaches (static callee, or the enumerated targets of a call through
// a function value); nil when the callee is not followed
func (s *efState) callTargets(call *ssa.Call) []*ssa.Function {
	c := call.Common()
	if c.IsInvoke() {
		ts, _ := s.invokeTargets(c)
		return ts
	}
	if f := staticCallee(c); f != nil {
		if inModule(f) && len(f.Blocks) > 0 && f.Pkg != s.errPkg {
			return []*ssa.Function{f}
		}
		return nil
	}
	if _, isB := c.Value.(*ssa.Builtin); isB {
		return nil
	}
	ts, why := s.dynTargets(call)
	if why != "" {
		return nil
	}
	return ts
}

// valueUsed: does the error value ev go into the making of v (kept, or by its text)?  v is followed with the value
// flow of the table; where v is the result of a call of a function of the module, ev counts as used when it is
// (part of) an argument whose parameter goes into the making of that result (paramUsed): the same binding of
// arguments to parameters the flow graph itself makes, but for this call site only.
func (s *efState) valueUsed(v, ev ssa.Value, depth int) bool {
	if v == nil || depth > 6 {
		return false
	}
	seen := map[ssa.Value]bool{}
	reach := map[*EFNode]bool{}
	s.dfs(v, seen, reach)
	if seen[ev] {
		return true
	}
	for rn := range reach {
		if rn.consumed[ev] {
			return true
		}
	}
	var vals []ssa.Value
	for x := range seen {
		vals = append(vals, x)
	}
	for _, x := range vals {
		var call *ssa.Call
		ridx := 0
		switch y := x.(type) {
		case *ssa.Call:
			call = y
		case *ssa.Extract:
			call, _ = y.Tuple.(*ssa.Call)
			ridx = y.Index
		}
		if call == nil {
			continue
		}
		for _, t := range s.callTargets(call) {
			for pi := range t.Params {
				a, ok := argFor(call, t, pi)
				if !ok || !s.argCarries(a, ev, depth) {
					continue
				}
				if s.paramUsed(t, pi, ridx) {
					return true
				}
			}
		}
	}
	return false
}

// argCarries: the argument is the error value (or made from it), or a string made from its text
func (s *efState) argCarries(a, ev ssa.Value, depth int) bool {
	u := unwrapIface(a)
	if u == ev || a == ev {
		return true
	}
	if s.errorish(u.Type()) || s.isErrSlice(u.Type()) {
		return s.valueUsed(a, ev, depth+1)
	}
	if b, ok := u.Type().Underlying().(*types.Basic); ok && b.Info()&types.IsString != 0 {
		var es []ssa.Value
		s.strErrs(u, map[ssa.Value]bool{}, &es)
		for _, e := range es {
			if e == ev || s.valueUsed(e, ev, depth+1) {
				return true
			}
		}
	}
	return false
}

// paramUsed: parameter pi of fn goes into the making of (some value of) its result ridx
func (s *efState) paramUsed(fn *ssa.Function, pi, ridx int) bool {
	k := puseKey{fn, pi, ridx}
	switch s.puse[k] {
	case 1, 2:
		return false
	case 3:
		return true
	}
	s.puse[k] = 1
	res := false
	if pi < len(fn.Params) {
		for _, b := range fn.Blocks {
			for _, ins := range b.Instrs {
				if r, ok := ins.(*ssa.Return); ok && ridx < len(r.Results) && !res {
					res = s.valueUsed(r.Results[ridx], fn.Params[pi], 1)
				}
			}
		}
	}
	if res {
		s.puse[k] = 3
	} else {
		s.puse[k] = 2
	}
	return res
}

type keptRes struct {
	ok     bool
	cells  []fieldKey
	fns    []*ssa.Function // the functions that do the keeping (the callee and the helpers it returns through)
	busy   bool
	stored bool // some value of the result is kept by a store (here or in a helper it returns through); a result
	// that is ok and not stored is only ever READ from the cells: the function is a getter of the field(s)
}

// fieldOfStore: the (type, field) a store instruction writes, for fields of named struct types
func fieldOfAddr(addr ssa.Value) (fieldKey, bool) {
	if fa, ok := addr.(*ssa.FieldAddr); ok {
		if nt, ok := deref(fa.X.Type()).(*types.Named); ok {
			return fieldKey{nt, fa.Field}, true
		}
	}
	return fieldKey{}, false
}

// keptResult: every error value result idx of fn can evaluate to is, when fn returns it, also held by a struct
// field: the value returned is read from the field, or it is stored into the field on every path to the return
// (a store that dominates the return, or that sits on the non-nil side of a test of the value that does), or it
// is the result of a function for which the same holds.  Such a result is not lost when the caller ignores it,
// provided the field is read where it matters (fieldReadTowardsAPI).
func (s *efState) keptResult(fn *ssa.Function, idx int) *keptRes {
	k := funKey{fn, idx}
	if r, ok := s.kres[k]; ok {
		if r.busy {
			return &keptRes{}
		}
		return r
	}
	r := &keptRes{busy: true}
	s.kres[k] = r
	ok := len(fn.Blocks) > 0
	nret := 0
	for _, b := range fn.Blocks {
		for _, ins := range b.Instrs {
			ret, isRet := ins.(*ssa.Return)
			if !isRet || idx >= len(ret.Results) || !ok {
				continue
			}
			nret++
			ok = s.keptValue(fn, ret.Results[idx], b, r, map[ssa.Value]bool{})
		}
	}
	r.busy = false
	r.ok = ok && nret > 0
	r.fns = append(r.fns, fn)
	if r.ok && !r.stored && writesCells(fn, r.cells) {
		// it returns what the field holds after having written the field itself (`p.f = poll(); return p.get()`):
		// that is keeping, not getting
		r.stored = true
	}
	return r
}

func (s *efState) keptValue(fn *ssa.Function, v ssa.Value, at *ssa.BasicBlock, r *keptRes, seen map[ssa.Value]bool) bool {
	if seen[v] {
		return true
	}
	seen[v] = true
	switch x := v.(type) {
	case *ssa.Const:
		return x.IsNil()
	case *ssa.Phi:
		for i, e := range x.Edges {
			if !s.keptValue(fn, e, x.Block().Preds[i], r, seen) {
				return false
			}
		}
		return true
	case *ssa.ChangeInterface:
		return s.keptValue(fn, x.X, at, r, seen)
	case *ssa.UnOp:
		if x.Op == token.MUL {
			if fk, ok := fieldOfAddr(x.X); ok {
				r.cells = append(r.cells, fk)
				return true
			}
		}
	}
	// stored into a field on the way to the return
	if refs := v.Referrers(); refs != nil {
		for _, ref := range *refs {
			st, ok := ref.(*ssa.Store)
			if !ok || st.Val != v {
				continue
			}
			fk, ok := fieldOfAddr(st.Addr)
			if !ok {
				continue
			}
			sb := st.Block()
			if sb.Dominates(at) {
				r.cells = append(r.cells, fk)
				r.stored = true
				return true
			}
			// if v != nil { field = v } ... return v
			if len(sb.Preds) == 1 {
				p := sb.Preds[0]
				if iff, ok := p.Instrs[len(p.Instrs)-1].(*ssa.If); ok && p.Dominates(at) {
					if bo, ok := iff.Cond.(*ssa.BinOp); ok && (bo.X == v || bo.Y == v) {
						other := bo.Y
						if other == v {
							other = bo.X
						}
						if c, ok := other.(*ssa.Const); ok && c.IsNil() &&
							((bo.Op == token.NEQ && p.Succs[0] == sb) || (bo.Op == token.EQL && p.Succs[1] == sb)) {
							r.cells = append(r.cells, fk)
							r.stored = true
							return true
						}
					}
				}
			}
		}
	}
	// the result of a function of the scope packages that keeps its own result
	var call *ssa.Call
	ridx := 0
	switch y := v.(type) {
	case *ssa.Call:
		call = y
	case *ssa.Extract:
		call, _ = y.Tuple.(*ssa.Call)
		ridx = y.Index
	}
	if call != nil {
		if f := staticCallee(call.Common()); f != nil && !call.Common().IsInvoke() {
			if _, in := s.scope[f.Pkg]; in {
				sub := s.keptResult(f, ridx)
				if sub.ok {
					r.cells = append(r.cells, sub.cells...)
					if sub.stored {
						r.stored = true
						r.fns = append(r.fns, sub.fns...)
					}
					// else f is a getter: it only hands out the value the field holds, it keeps nothing.  It is
					// not a keeper; its call sites are reads of the field (fieldReadTowardsAPI follows them)
					return true
				}
			}
		}
	}
	return false
}

// fieldReadTowardsAPI: the field is read, outside the functions that keep the value in it, by an instruction
// whose value goes into a node that can arrive at an entry point (so the kept value is not just parked).  A load
// that only makes the result of a getter (a function whose result is, on every return, the value of the field
// and nothing else) is followed to the getter's callers: each call of the getter outside the keepers is a read
// of the field, and it counts when the value of THAT call goes into a node that can arrive at an entry point.
func (s *efState) fieldReadTowardsAPI(fk fieldKey, keepers []*ssa.Function) bool {
	if s.feedsAPI == nil {
		s.feedsAPI = map[*EFNode]bool{}
		var work []*EFNode
		for _, n := range s.nodes {
			if n.API {
				s.feedsAPI[n] = true
				work = append(work, n)
			}
		}
		for len(work) > 0 {
			n := work[len(work)-1]
			work = work[:len(work)-1]
			for _, l := range [][]int{n.Inner, n.Dropped} {
				for _, id := range l {
					if id >= 1 && id <= len(s.nodes) {
						if m := s.nodes[id-1]; !s.feedsAPI[m] {
							s.feedsAPI[m] = true
							work = append(work, m)
						}
					}
				}
			}
		}
	}
	for _, ld := range s.fldLoads[fk] {
		if inFns(ld.Parent(), keepers) || !s.visitedV[ld] {
			continue
		}
		if s.readTowardsAPI(ld, keepers, map[funKey]bool{}) {
			return true
		}
	}
	return false
}

// resultKept: the error result of this call is held by a struct field that is read towards an entry point
func (s *efState) resultKept(call *ssa.Call, eidx int) bool {
	c := call.Common()
	f := staticCallee(c)
	if f == nil || c.IsInvoke() {
		return false
	}
	if _, in := s.scope[f.Pkg]; !in {
		return false
	}
	r := s.keptResult(f, eidx)
	if !r.ok || len(r.cells) == 0 {
		return false
	}
	keepers := r.fns
	if !r.stored {
		// the callee is itself a getter: nothing is kept by this call, the value stays where it was read from
		keepers = nil
	}
	for _, fk := range r.cells {
		if !s.fieldReadTowardsAPI(fk, keepers) {
			return false
		}
	}
	return true
}

// ---- replaced errors and swallowed errors ---------------------------------------------------------------

func (s *efState) replaceAndSwallow(fns []*ssa.Function, out *EFOut) {
	// site nodes by block
	byBlock := map[*ssa.BasicBlock][]*EFNode{}
	for _, n := range s.nodes {
		var ins ssa.Instruction
		switch k := n.key.(type) {
		case *ssa.Call:
			ins = k
		case *ssa.MakeInterface:
			ins = k
		case *ssa.Alloc:
			ins = k
		}
		if ins != nil && n.Kind != "ctx" && n.Kind != "unknown" {
			byBlock[ins.Block()] = append(byBlock[ins.Block()], n)
		}
	}
	for _, fn := range fns {
		if fn.Synthetic != "" {
			continue
		}
		for _, b := range fn.Blocks {
			for _, ins := range b.Instrs {
				call, ok := ins.(*ssa.Call)
				if !ok {
					continue
				}
				// error-typed results of this call
				var ev ssa.Value
				sig := call.Common().Signature()
				res := sig.Results()
				eidx := -1
				for i := 0; i < res.Len(); i++ {
					if s.isErrorType(res.At(i).Type()) {
						eidx = i
					}
				}
				if eidx < 0 {
					continue
				}
				isPoll := call.Common().IsInvoke() && call.Common().Method.Name() == "Err"
				if sc := staticCallee(call.Common()); sc != nil {
					if _, in := s.scope[sc.Pkg]; !in {
						continue // external callee: its error is not one of ours
					}
				} else if !isPoll {
					if _, isB := call.Common().Value.(*ssa.Builtin); isB || (call.Common().IsInvoke() && !s.invokeInScope(call.Common())) {
						continue
					}
				}
				if res.Len() == 1 {
					ev = call
				} else {
					for _, ref := range *call.Referrers() {
						if ex, ok := ref.(*ssa.Extract); ok && ex.Index == eidx {
							ev = ex
						}
					}
				}
				srcs := func() []int {
					if ev != nil {
						return s.flow(ev, nil)
					}
					set := map[*EFNode]bool{}
					s.dfsCall(call, eidx, map[ssa.Value]bool{}, set)
					var ns []*EFNode
					for n := range set {
						ns = append(ns, n)
					}
					o := s.ids(ns)
					sort.Ints(o)
					return o
				}
				calleeName := "?"
				if f := staticCallee(call.Common()); f != nil {
					calleeName = f.Name()
				} else if call.Common().IsInvoke() {
					calleeName = call.Common().Method.Name()
				}
				pos := s.prog.Fset.Position(call.Pos())
				mk := func(how string) {
					for _, id := range srcs() {
						out.Swallows = append(out.Swallows, EFSwallow{Pkg: s.shortPkg(fn), File: filepath.Base(pos.Filename), Func: fnName(rootFn(fn)),
							Line: pos.Line, Callee: calleeName, Node: id, How: how})
					}
				}
				// a result the caller does not propagate is not lost when the callee has also put it into a struct
				// field that is read on the way to an entry point (the poll helper records the context error in
				// the parser; ParseContext reports it from there)
				keptState := 0
				kept := func() bool {
					if keptState == 0 {
						keptState = 1
						if s.resultKept(call, eidx) {
							keptState = 2
						}
					}
					return keptState == 2
				}
				if ev == nil || len(*ev.Referrers()) == 0 {
					if !kept() {
						mk("unused")
					}
					continue
				}
				// branches on ev != nil / ev == nil
				replaced := false
				hows := map[string]bool{}
				tested := false
				for _, ref := range *ev.Referrers() {
					bo, ok := ref.(*ssa.BinOp)
					if !ok || (bo.Op != token.NEQ && bo.Op != token.EQL) {
						continue
					}
					other := bo.Y
					if other == ev {
						other = bo.X
					}
					if k, ok := other.(*ssa.Const); !ok || !k.IsNil() {
						continue
					}
					for _, r2 := range *bo.Referrers() {
						iff, ok := r2.(*ssa.If)
						if !ok {
							continue
						}
						tested = true
						eb := iff.Block().Succs[0]
						if bo.Op == token.EQL {
							eb = iff.Block().Succs[1]
						}
						nret := 0
						for _, rb := range fn.Blocks {
							if !(rb == eb || eb.Dominates(rb)) {
								continue
							}
							for _, sn := range byBlock[rb] {
								if sn.consumed[ev] {
									continue
								}
								have := map[int]bool{}
								for _, l := range [][]int{sn.Inner, sn.Dropped, sn.Replaced} {
									for _, id := range l {
										have[id] = true
									}
								}
								for _, id := range srcs() {
									if !have[id] {
										sn.Replaced = append(sn.Replaced, id)
									}
								}
								replaced = true
							}
							for _, ri := range rb.Instrs {
								switch r := ri.(type) {
								case *ssa.Panic:
									nret++
									hows["panics"] = true
								case *ssa.Return:
									nret++
									anyErr := false
									for i, rv := range r.Results {
										if !(s.isErrorType(rv.Type()) || s.isErrSlice(rv.Type())) {
											continue
										}
										_ = i
										if c, ok := rv.(*ssa.Const); ok && c.IsNil() {
											continue
										}
										anyErr = true
										if !s.valueUsed(rv, ev, 0) {
											hows["replaced"] = true
										}
									}
									if !anyErr && !s.visitedV[ev] && !kept() {
										hows["returns-nil"] = true
									}
								}
							}
						}
						if nret == 0 && !s.visitedV[ev] && !kept() {
							hows["continues"] = true
						}
					}
				}
				_ = replaced
				if !tested && !s.visitedV[ev] && !kept() {
					hows["untested"] = true
				}
				var hl []string
				for h := range hows {
					if h != "panics" {
						hl = append(hl, h)
					}
				}
				sort.Strings(hl)
				for _, h := range hl {
					mk(h)
				}
			}
		}
	}
}

// ---- numbering and output --------------------------------------------------------------------------------

func uniqInts(a []int) []int {
	sort.Ints(a)
	out := a[:0]
	for i, x := range a {
		if i == 0 || x != a[i-1] {
			out = append(out, x)
		}
	}
	return out
}

func (s *efState) finish(out *EFOut) {
	sorted := append([]*EFNode(nil), s.nodes...)
	kindRank := map[string]int{"fun": 0}
	sort.SliceStable(sorted, func(i, j int) bool {
		a, b := sorted[i], sorted[j]
		if a.Pkg != b.Pkg {
			return a.Pkg < b.Pkg
		}
		if a.File != b.File {
			return a.File < b.File
		}
		if a.Line != b.Line {
			return a.Line < b.Line
		}
		if a.Col != b.Col {
			return a.Col < b.Col
		}
		if kindRank[a.Kind] != kindRank[b.Kind] || a.Kind != b.Kind {
			return a.Kind < b.Kind
		}
		if a.Result != b.Result {
			return a.Result < b.Result
		}
		return a.Callee < b.Callee
	})
	newID := map[int]int{}
	for i, n := range sorted {
		newID[n.ID] = i
	}
	remap := func(l []int) []int {
		o := make([]int, 0, len(l))
		for _, x := range l {
			o = append(o, newID[x])
		}
		return uniqInts(o)
	}
	for _, n := range sorted {
		n.Inner, n.Dropped, n.Replaced = remap(n.Inner), remap(n.Dropped), remap(n.Replaced)
	}
	// signatures: file:function:kind:code#ordinal (stable under line shifts)
	cnt := map[string]int{}
	for i, n := range sorted {
		n.ID = i
		base := fmt.Sprintf("%s:%s:%s:%s", n.File, n.Func, n.Kind, n.Code)
		if n.Kind == "fun" {
			base = fmt.Sprintf("%s:%s:fun:%d", n.File, n.Func, n.Result)
		}
		if n.Kind == "unknown" {
			base = fmt.Sprintf("%s:%s:unknown:%s", n.File, n.Func, n.Callee)
		}
		cnt[base]++
		n.Sig = fmt.Sprintf("%s#%d", base, cnt[base])
	}
	out.Nodes = sorted
	for i := range out.Swallows {
		out.Swallows[i].Node = newID[out.Swallows[i].Node]
	}
	sort.SliceStable(out.Swallows, func(i, j int) bool {
		a, b := out.Swallows[i], out.Swallows[j]
		if a.Pkg != b.Pkg {
			return a.Pkg < b.Pkg
		}
		if a.File != b.File {
			return a.File < b.File
		}
		if a.Line != b.Line {
			return a.Line < b.Line
		}
		return a.Node < b.Node
	})
	scnt := map[string]int{}
	for i := range out.Swallows {
		w := &out.Swallows[i]
		base := fmt.Sprintf("%s:%s:swallow:%s", w.File, w.Func, w.Callee)
		scnt[base+fmt.Sprint(w.Line)]++
		w.Sig = base
	}
	for nte := range s.notes {
		out.Notes = append(out.Notes, nte)
	}
	sort.Strings(out.Notes)
}

// pollIntervalByRole finds, in the methods of *Parser that call a context's Err(), a test `pos % K == 0` or
// `pos & (K-1) == 0` with constant K and returns K (as decimal text), or "".
func pollIntervalByRole(p *packages.Package) string {
	res := ""
	for _, f := range p.Syntax {
		for _, d := range f.Decls {
			fd, ok := d.(*ast.FuncDecl)
			if !ok || fd.Body == nil || fd.Recv == nil {
				continue
			}
			ast.Inspect(fd.Body, func(n ast.Node) bool {
				be, ok := n.(*ast.BinaryExpr)
				if !ok || (be.Op != token.REM && be.Op != token.AND) {
					return true
				}
				tv, ok := p.TypesInfo.Types[be.Y]
				if !ok || tv.Value == nil || tv.Value.Kind() != constant.Int {
					return true
				}
				// the left operand mentions a field named like a cursor position of the receiver
				left := ""
				ast.Inspect(be.X, func(m ast.Node) bool {
					if se, ok := m.(*ast.SelectorExpr); ok {
						left = se.Sel.Name
					}
					return true
				})
				if !strings.Contains(strings.ToLower(left), "pos") {
					return true
				}
				k, _ := constant.Int64Val(tv.Value)
				if be.Op == token.AND {
					k++
				}
				if k > 1 && res == "" {
					res = fmt.Sprintf("%d", k)
				}
				return true
			})
		}
	}
	return res
}

// ---- getters of a kept field (robust3/07b) ----------------------------------------------------------------

func inFns(f *ssa.Function, fns []*ssa.Function) bool {
	for _, g := range fns {
		if f == g {
			return true
		}
	}
	return false
}

// writesCells: fn itself stores into one of the fields
func writesCells(fn *ssa.Function, cells []fieldKey) bool {
	for _, b := range fn.Blocks {
		for _, ins := range b.Instrs {
			if st, ok := ins.(*ssa.Store); ok {
				if fk, ok := fieldOfAddr(st.Addr); ok {
					for _, c := range cells {
						if c == fk {
							return true
						}
					}
				}
			}
		}
	}
	return false
}

// isGetter: result idx of fn is, on every return, the value some struct field holds (or nil) and nothing else:
// no store keeps it, no keeper is returned through, and fn does not write the field
func (s *efState) isGetter(fn *ssa.Function, idx int) bool {
	if fn == nil || len(fn.Blocks) == 0 || idx >= fn.Signature.Results().Len() || !s.isErrorType(fn.Signature.Results().At(idx).Type()) {
		return false
	}
	if _, in := s.scope[fn.Pkg]; !in {
		return false
	}
	r := s.keptResult(fn, idx)
	return r.ok && !r.busy && !r.stored && len(r.cells) > 0
}

// readTowardsAPI: the value v (a load of the kept field, or a call of a getter of it) goes into a node that can
// arrive at an entry point.  Where the only such node is the result of a getter v sits in, the question is asked
// again for every static call of that getter outside the keepers (the value of that call, not of all calls:
// the getter's result node is shared by all its callers, the keepers included).
func (s *efState) readTowardsAPI(v ssa.Value, keepers []*ssa.Function, seen map[funKey]bool) bool {
	ins, ok := v.(ssa.Instruction)
	if !ok {
		return false
	}
	host := ins.Parent()
	var via []funKey
	for n := range s.feedsAPI {
		if !n.consumed[v] {
			continue
		}
		if k, ok := n.key.(funKey); ok && k.fn == host && s.isGetter(k.fn, k.idx) {
			via = append(via, k)
			continue
		}
		return true
	}
	for _, k := range via {
		if seen[k] {
			continue
		}
		seen[k] = true
		node := s.cg.Nodes[k.fn]
		if node == nil {
			continue
		}
		for _, e := range node.In {
			call, ok := e.Site.(*ssa.Call)
			if !ok || call.Common().IsInvoke() || staticCallee(call.Common()) != k.fn || inFns(call.Parent(), keepers) {
				continue
			}
			var cv ssa.Value = call
			if k.fn.Signature.Results().Len() > 1 {
				cv = nil
				for _, ref := range *call.Referrers() {
					if ex, ok := ref.(*ssa.Extract); ok && ex.Index == k.idx {
						cv = ex
					}
				}
			}
			if cv != nil && s.visitedV[cv] && s.readTowardsAPI(cv, keepers, seen) {
				return true
			}
		}
	}
	return false
}
