// accesses.go: the footprint table of package-level state (C10).
//
// For every package-level variable of the library packages and everything reachable from it by field /
// element / pointer paths ("cell": variable name + field names), every access site outside and inside
// init, found on go/ssa:  loads and stores, map reads / updates / deletes / ranges, sync/atomic calls,
// sync.Pool / sync.Once / sync.Map / Mutex operations, with — per site — the mutexes that are
// certainly held (forward must-analysis over the SSA blocks; Lock/RLock add, non-deferred Unlock/RUnlock
// remove; locks held by the caller are inherited through direct calls), whether the site runs inside a
// function passed to (*sync.Once).Do, and which Once.Do calls certainly happened before it.
// Calls are followed context-sensitively (parameter -> cell bindings, held locks) through static callees and
// closures; arguments escaping to functions outside the library are recorded as "escape" sites.
package main

import (
	"fmt"
	"go/token"
	"go/types"
	"sort"
	"strings"

	"golang.org/x/tools/go/packages"
	"golang.org/x/tools/go/ssa"
)

type AccessSite struct {
	Cell   string   `json:"cell"`
	Write  bool     `json:"write"`
	Kind   string   `json:"kind"`           // plain | atomic | sync | escape
	Held   []string `json:"held"`           // "cell:W" / "cell:R"
	Once   string   `json:"once,omitempty"` // runs inside the function given to this Once
	After  []string `json:"after"`          // Once cells whose Do certainly returned before
	Init   bool     `json:"init"`           // runs during package initialisation
	Func   string   `json:"func"`
	Pos    string   `json:"pos"`
	Callee string   `json:"callee,omitempty"` // escape: the external callee
}

type CellInfo struct {
	Cell  string `json:"cell"`
	Pkg   string `json:"pkg"`
	Type  string `json:"type"`
	Class string `json:"class"` // pool | once | mutex | atomic | syncmap | plain
}

type accCtx struct {
	held  map[string]string // cell -> "W"/"R"
	once  string
	after map[string]bool
	init  bool
	bind  map[ssa.Value]string // parameter / free variable -> cell
	fns   map[ssa.Value]fnBind // func-typed parameter -> the function (closure) it was given at the call site
}

// fnBind: a function handed to a library function as an argument: the callee's calls of the parameter run it, with the
// locks the callee holds at that point (a `withLock(func(){...})` helper)
type fnBind struct {
	fn  *ssa.Function
	val ssa.Value // the MakeClosure, for its captured cells
	ctx *accCtx   // the context the closure was created in
}

// onlyCalled: the func-typed parameter is only ever called (or handed on to a parameter that is only called) in its
// function: a function given for it does not escape, it runs exactly where the parameter is called
func onlyCalled(p *ssa.Parameter, depth int) bool {
	if p == nil || p.Referrers() == nil || depth > 3 {
		return false
	}
	for _, r := range *p.Referrers() {
		switch x := r.(type) {
		case *ssa.DebugRef:
		case ssa.CallInstruction:
			cc := x.Common()
			if cc.Value == p {
				for _, a := range cc.Args {
					if a == p {
						return false
					}
				}
				continue
			}
			sc := cc.StaticCallee()
			if sc == nil || len(sc.Blocks) == 0 {
				return false
			}
			ok := false
			for i, a := range cc.Args {
				if a == p && i < len(sc.Params) {
					ok = onlyCalled(sc.Params[i], depth+1)
				}
			}
			if !ok {
				return false
			}
		default:
			return false
		}
	}
	return true
}

// passedToCaller: the function value operand is an argument of a static call of a library function whose parameter is
// only called: it is analysed where the callee calls it, not as an entry point of its own
func (an *accAn) passedToCaller(ins ssa.Instruction, op ssa.Value) bool {
	ci, ok := ins.(ssa.CallInstruction)
	if !ok {
		return false
	}
	if _, isGo := ins.(*ssa.Go); isGo {
		return false
	}
	sc := ci.Common().StaticCallee()
	if sc == nil || len(sc.Blocks) == 0 || an.libPkgs[sc.Pkg] == "" {
		return false
	}
	for i, a := range ci.Common().Args {
		if a == op {
			if i >= len(sc.Params) || !onlyCalled(sc.Params[i], 0) {
				return false
			}
		}
	}
	return true
}

type accAn struct {
	prog    *ssa.Program
	libPkgs map[*ssa.Package]string
	sites   map[string]AccessSite
	cells   map[string]CellInfo
	memo    map[string]bool
	fset    *token.FileSet
	depth   int
	dynamic map[string]bool
	retMemo map[*ssa.Function]string
	effMemo map[string]*lockEff
}

func isLib(path string) bool { return strings.HasPrefix(path, mod+"/pkg/") }

func accesses(prog *ssa.Program, pkgs []*packages.Package, out *Out) {
	an := &accAn{prog: prog, libPkgs: map[*ssa.Package]string{}, sites: map[string]AccessSite{}, cells: map[string]CellInfo{},
		memo: map[string]bool{}, dynamic: map[string]bool{}}
	for _, p := range pkgs {
		if !isLib(p.PkgPath) {
			continue
		}
		if sp := prog.Package(p.Types); sp != nil {
			an.libPkgs[sp] = strings.TrimPrefix(p.PkgPath, mod+"/")
			an.fset = p.Fset
		}
	}
	// which functions are only ever used as the argument of Once.Do (they are not entry points)
	onceOnly, valueUsed := an.functionUses()
	var entries []*ssa.Function
	for sp := range an.libPkgs {
		for _, m := range sp.Members {
			switch x := m.(type) {
			case *ssa.Function:
				entries = append(entries, x)
			case *ssa.Type:
				for _, T := range []types.Type{x.Type(), types.NewPointer(x.Type())} {
					ms := prog.MethodSets.MethodSet(T)
					for i := 0; i < ms.Len(); i++ {
						if f := prog.MethodValue(ms.At(i)); f != nil && f.Pkg == sp && f.Synthetic == "" {
							entries = append(entries, f)
						}
					}
				}
			}
		}
	}
	sort.Slice(entries, func(i, j int) bool { return entries[i].String() < entries[j].String() })
	seen := map[*ssa.Function]bool{}
	var roots []*ssa.Function // entry points, in analysis order (also the entry points of the acquisition table, acquire.go)
	for _, f := range entries {
		if seen[f] || len(f.Blocks) == 0 {
			continue
		}
		seen[f] = true
		name := f.Name()
		isInit := name == "init" || strings.HasPrefix(name, "init#")
		exported := token.IsExported(name) || name == "main" || isInit || f.Pkg.Pkg.Name() == "main" // cgo-exported functions of a main package
		if !exported && !valueUsed[f] {
			continue // unexported: reached through its callers (with their locks) only
		}
		if onceOnly[f] && !valueUsed[f] && !exported {
			continue
		}
		an.analyze(f, &accCtx{held: map[string]string{}, after: map[string]bool{}, init: isInit, bind: map[ssa.Value]string{}})
		roots = append(roots, f)
	}
	// closures whose value is used dynamically are entries too (analysed with unknown bindings)
	var dynRoots []*ssa.Function
	for f := range valueUsed {
		if f.Parent() != nil && an.libPkgs[f.Pkg] != "" && !seen[f] {
			seen[f] = true
			an.analyze(f, &accCtx{held: map[string]string{}, after: map[string]bool{}, bind: map[ssa.Value]string{}})
			dynRoots = append(dynRoots, f)
		}
	}
	sort.Slice(dynRoots, func(i, j int) bool { return dynRoots[i].String() < dynRoots[j].String() })
	an.acquisitions(append(roots, dynRoots...), out)
	for _, s := range an.sites {
		out.Accesses = append(out.Accesses, s)
	}
	sort.Slice(out.Accesses, func(i, j int) bool {
		a, b := out.Accesses[i], out.Accesses[j]
		if a.Cell != b.Cell {
			return a.Cell < b.Cell
		}
		if a.Pos != b.Pos {
			return a.Pos < b.Pos
		}
		return siteKey(a) < siteKey(b)
	})
	for _, c := range an.cells {
		out.Cells = append(out.Cells, c)
	}
	sort.Slice(out.Cells, func(i, j int) bool { return out.Cells[i].Cell < out.Cells[j].Cell })
	for d := range an.dynamic {
		out.AccessNotes = append(out.AccessNotes, d)
	}
	sort.Strings(out.AccessNotes)
}

// functionUses: functions used only as Once.Do arguments; functions whose value is used some other way
func (an *accAn) functionUses() (onceOnly, valueUsed map[*ssa.Function]bool) {
	onceOnly, valueUsed = map[*ssa.Function]bool{}, map[*ssa.Function]bool{}
	var visit func(f *ssa.Function)
	visit = func(f *ssa.Function) {
		for _, b := range f.Blocks {
			for _, ins := range b.Instrs {
				var callee ssa.Value
				var args []ssa.Value
				if ci, ok := ins.(ssa.CallInstruction); ok {
					callee = ci.Common().Value
					args = ci.Common().Args
					if isOnceDo(ci.Common()) && len(args) == 2 {
						if fn := funcOf(args[1]); fn != nil {
							if !valueUsed[fn] {
								onceOnly[fn] = true
							}
							continue
						}
					}
				}
				for _, op := range ins.Operands(nil) {
					if op == nil || *op == nil {
						continue
					}
					if *op == callee {
						continue // static call, not a use as a value
					}
					if fn := funcOf(*op); fn != nil {
						if _, isMC := ins.(*ssa.MakeClosure); isMC {
							continue // closure creation: the closure value's own uses are what matters
						}
						if an.passedToCaller(ins, *op) {
							continue // runs where the callee calls its parameter, with the callee's locks
						}
						valueUsed[fn] = true
						delete(onceOnly, fn)
					}
				}
			}
		}
		for _, af := range f.AnonFuncs {
			visit(af)
		}
	}
	for sp := range an.libPkgs {
		for _, m := range sp.Members {
			if f, ok := m.(*ssa.Function); ok {
				visit(f)
			}
			if t, ok := m.(*ssa.Type); ok {
				for _, T := range []types.Type{t.Type(), types.NewPointer(t.Type())} {
					ms := an.prog.MethodSets.MethodSet(T)
					for i := 0; i < ms.Len(); i++ {
						if f := an.prog.MethodValue(ms.At(i)); f != nil && f.Pkg == sp {
							visit(f)
						}
					}
				}
			}
		}
	}
	return
}

func funcOf(v ssa.Value) *ssa.Function {
	switch x := v.(type) {
	case *ssa.Function:
		return x
	case *ssa.MakeClosure:
		if f, ok := x.Fn.(*ssa.Function); ok {
			return f
		}
	case *ssa.ChangeType:
		return funcOf(x.X)
	}
	return nil
}

func isOnceDo(c *ssa.CallCommon) bool {
	sc := c.StaticCallee()
	return sc != nil && sc.String() == "(*sync.Once).Do"
}

func siteKey(s AccessSite) string {
	return fmt.Sprintf("%s|%v|%s|%v|%s|%v|%v|%s|%s", s.Cell, s.Write, s.Kind, s.Held, s.Once, s.After, s.Init, s.Pos, s.Callee)
}

func ctxKey(f *ssa.Function, c *accCtx) string {
	var b []string
	for v, cell := range c.bind {
		b = append(b, v.Name()+"="+cell)
	}
	for v, fb := range c.fns {
		b = append(b, fmt.Sprintf("%s=func %p", v.Name(), fb.fn))
	}
	sort.Strings(b)
	return fmt.Sprintf("%p|%s|%s|%s|%s|%v", f, strings.Join(b, ","), heldList(c.held), c.once, setList(c.after), c.init)
}

func heldList(h map[string]string) string {
	var l []string
	for k, m := range h {
		l = append(l, k+":"+m)
	}
	sort.Strings(l)
	return strings.Join(l, ",")
}

func setList(h map[string]bool) string {
	var l []string
	for k := range h {
		l = append(l, k)
	}
	sort.Strings(l)
	return strings.Join(l, ",")
}

func copyHeld(h map[string]string) map[string]string {
	r := map[string]string{}
	for k, v := range h {
		r[k] = v
	}
	return r
}

func copySet(h map[string]bool) map[string]bool {
	r := map[string]bool{}
	for k, v := range h {
		r[k] = v
	}
	return r
}

// derefOf: key of accCtx.bind for "the value LOADED from v is rooted in the cell" (v: a free variable of a closure that
// captured, by reference, a local holding a reference into package-level state).  The variable itself is not
// package-level state, so v alone is not bound (loads and stores of the variable are no accesses of the cell).
type derefOf struct{ ssa.Value }

func (d derefOf) Name() string { return "*" + d.Value.Name() }

// onlyLoaded: every use of the address v (an Alloc, or the free variable of a closure that captured it) is a load, a
// debug reference, or a capture by a closure in which the same holds; nstores counts the stores THROUGH v when
// allowStore (the defining function of the Alloc), any other store makes the answer false
func onlyLoaded(v ssa.Value, allowStore bool, nstores *int, depth int) bool {
	refs := v.Referrers()
	if refs == nil || depth > 4 {
		return false
	}
	for _, r := range *refs {
		switch x := r.(type) {
		case *ssa.UnOp:
			if x.Op != token.MUL || x.X != v {
				return false
			}
		case *ssa.DebugRef:
		case *ssa.Store:
			if !allowStore || x.Addr != v || x.Val == v {
				return false
			}
			*nstores++
		case *ssa.MakeClosure:
			fn, ok := x.Fn.(*ssa.Function)
			if !ok {
				return false
			}
			for i, b := range x.Bindings {
				if b == v {
					if i >= len(fn.FreeVars) || !onlyLoaded(fn.FreeVars[i], false, nstores, depth+1) {
						return false
					}
				}
			}
		default:
			return false
		}
	}
	return true
}

// localCell: al is a local variable (a heap cell in go/ssa when a closure captures it) that is stored exactly once,
// with a reference value, and otherwise only loaded (also inside the closures that capture it): every load yields
// the stored value, so what is loaded is rooted where the stored value is  (mu := &g.M; defer func() { mu.Unlock() }())
func (an *accAn) localCell(al *ssa.Alloc, c *accCtx, depth int) string {
	n := 0
	if !onlyLoaded(al, true, &n, 0) || n != 1 {
		return ""
	}
	for _, r := range *al.Referrers() {
		if st, ok := r.(*ssa.Store); ok && st.Addr == al {
			if !isRefType(st.Val.Type()) {
				return ""
			}
			return an.cellOf(st.Val, c, depth+1)
		}
	}
	return ""
}

// unlockValue: v is a func value whose call IS the release of one mutex cell: the bound-method closure of
// (*sync.Mutex).Unlock / (*sync.RWMutex).Unlock / RUnlock on an address rooted in a cell (`m.mu.Unlock` as a value), or
// the result of a static call of a library function every return of which is such a closure on the same cell, the
// callee's parameters bound to this call's arguments (`unlock := g.guard()`).  summary: the address names several objects.
func (an *accAn) unlockValue(v ssa.Value, c *accCtx, depth int) (cell, method string, summary bool) {
	if v == nil || depth > 4 {
		return "", "", false
	}
	switch x := v.(type) {
	case *ssa.MakeClosure:
		fn, ok := x.Fn.(*ssa.Function)
		if !ok || len(x.Bindings) != 1 || !strings.HasSuffix(fn.Name(), "$bound") {
			return "", "", false
		}
		mo, _ := fn.Object().(*types.Func)
		if mo == nil {
			return "", "", false
		}
		switch mo.FullName() {
		case "(*sync.Mutex).Unlock", "(*sync.RWMutex).Unlock":
			method = "Unlock"
		case "(*sync.RWMutex).RUnlock":
			method = "RUnlock"
		default:
			return "", "", false
		}
		if cell = an.cellOf(x.Bindings[0], c, 0); cell == "" {
			return "", "", false
		}
		return cell, method, summaryAddr(x.Bindings[0], 0)
	case *ssa.Call:
		sc := x.Common().StaticCallee()
		if sc == nil || an.libPkgs[sc.Pkg] == "" || len(sc.Blocks) == 0 || sc.Recover != nil {
			return "", "", false
		}
		if _, isFunc := x.Type().Underlying().(*types.Signature); !isFunc {
			return "", "", false
		}
		nc := &accCtx{bind: map[ssa.Value]string{}}
		for i, a := range x.Common().Args {
			if i < len(sc.Params) {
				if ac := an.cellOf(a, c, 0); ac != "" {
					nc.bind[sc.Params[i]] = ac
				}
			}
		}
		an.bindClosure(x.Common().Value, sc, c, nc)
		n := 0
		for _, b := range sc.Blocks {
			for _, ins := range b.Instrs {
				ret, ok := ins.(*ssa.Return)
				if !ok {
					continue
				}
				if len(ret.Results) != 1 {
					return "", "", false
				}
				rc, rm, rs := an.unlockValue(ret.Results[0], nc, depth+1)
				if rc == "" || (n > 0 && (rc != cell || rm != method)) {
					return "", "", false
				}
				cell, method, summary = rc, rm, summary || rs
				n++
			}
		}
		return cell, method, summary
	}
	return "", "", false
}

// cellOf: the cell an address or a loaded reference value belongs to ("" if not rooted in package-level state)
func (an *accAn) cellOf(v ssa.Value, c *accCtx, depth int) string {
	if depth > 12 || v == nil {
		return ""
	}
	if cell, ok := c.bind[v]; ok {
		return cell
	}
	switch x := v.(type) {
	case *ssa.Global:
		if short, ok := an.libPkgs[x.Pkg]; ok {
			cell := short + "." + x.Name()
			an.noteCell(cell, short, deref(x.Type()))
			return cell
		}
		return ""
	case *ssa.FieldAddr:
		base := an.cellOf(x.X, c, depth+1)
		if base == "" {
			return ""
		}
		st, ok := deref(x.X.Type()).Underlying().(*types.Struct)
		if !ok {
			return base
		}
		cell := base + "." + st.Field(x.Field).Name()
		an.noteCell(cell, pkgOfCell(base), st.Field(x.Field).Type())
		return cell
	case *ssa.Field:
		base := an.cellOf(x.X, c, depth+1)
		if base == "" {
			return ""
		}
		st, ok := x.X.Type().Underlying().(*types.Struct)
		if !ok {
			return base
		}
		cell := base + "." + st.Field(x.Field).Name()
		an.noteCell(cell, pkgOfCell(base), st.Field(x.Field).Type())
		return cell
	case *ssa.IndexAddr:
		return an.cellOf(x.X, c, depth+1)
	case *ssa.Index:
		return an.cellOf(x.X, c, depth+1)
	case *ssa.Lookup:
		// the element of a map owned by a cell: a reference element belongs to that cell too
		if isRefType(x.Type()) {
			return an.cellOf(x.X, c, depth+1)
		}
		return ""
	case *ssa.UnOp:
		if x.Op == token.MUL {
			if !isRefType(x.Type()) {
				return ""
			}
			if cell, ok := c.bind[derefOf{x.X}]; ok {
				return cell
			}
			if al, ok := x.X.(*ssa.Alloc); ok {
				return an.localCell(al, c, depth)
			}
			return an.cellOf(x.X, c, depth+1)
		}
	case *ssa.Extract:
		return an.cellOf(x.Tuple, c, depth+1)
	case *ssa.Call:
		// a library function that hands out a reference to package-level state (accessor / singleton getter)
		if sc := x.Common().StaticCallee(); sc != nil && isRefLike(x.Type()) {
			if _, ok := an.libPkgs[sc.Pkg]; ok {
				return an.returnedCell(sc, depth)
			}
		}
		return ""
	case *ssa.ChangeType:
		return an.cellOf(x.X, c, depth+1)
	case *ssa.Convert:
		return an.cellOf(x.X, c, depth+1)
	case *ssa.MakeInterface:
		return an.cellOf(x.X, c, depth+1)
	case *ssa.TypeAssert:
		return an.cellOf(x.X, c, depth+1)
	case *ssa.Slice:
		return an.cellOf(x.X, c, depth+1)
	case *ssa.Phi:
		for _, e := range x.Edges {
			if e == v {
				continue
			}
			if cell := an.cellOf(e, c, depth+1); cell != "" {
				return cell
			}
		}
	}
	return ""
}

func isRefLike(t types.Type) bool {
	if tup, ok := t.(*types.Tuple); ok {
		for i := 0; i < tup.Len(); i++ {
			if isRefType(tup.At(i).Type()) {
				return true
			}
		}
		return false
	}
	return isRefType(t)
}

// returnedCell: the (first) cell a function returns a reference into, looking only at its own body with no bindings
func (an *accAn) returnedCell(f *ssa.Function, depth int) string {
	if an.retMemo == nil {
		an.retMemo = map[*ssa.Function]string{}
	}
	if v, ok := an.retMemo[f]; ok {
		return v
	}
	an.retMemo[f] = "" // recursion guard
	res := ""
	empty := &accCtx{held: map[string]string{}, after: map[string]bool{}, bind: map[ssa.Value]string{}}
	for _, b := range f.Blocks {
		for _, ins := range b.Instrs {
			if r, ok := ins.(*ssa.Return); ok && res == "" {
				for _, v := range r.Results {
					if isRefType(v.Type()) {
						if cell := an.cellOf(v, empty, depth+1); cell != "" {
							res = cell
							break
						}
					}
				}
			}
		}
	}
	an.retMemo[f] = res
	return res
}

func pkgOfCell(cell string) string {
	// "pkg/x/y.var.f" -> "pkg/x/y"
	i := strings.Index(cell, ".")
	if i < 0 {
		return cell
	}
	return cell[:i]
}

func isRefType(t types.Type) bool {
	switch t.Underlying().(type) {
	case *types.Pointer, *types.Map, *types.Slice, *types.Chan, *types.Interface, *types.Signature:
		return true
	}
	return false
}

func (an *accAn) noteCell(cell, pkg string, t types.Type) {
	if _, ok := an.cells[cell]; ok {
		return
	}
	an.cells[cell] = CellInfo{Cell: cell, Pkg: pkg, Type: types.TypeString(t, func(p *types.Package) string { return p.Name() }), Class: classifyCell(t)}
}

func classifyCell(t types.Type) string {
	c := classify(deref(t))
	if c == "other" {
		c = classify(t)
	}
	if c == "other" {
		return "plain"
	}
	return c
}

func (an *accAn) posOf(ins ssa.Instruction) string {
	p := an.fset.Position(ins.Pos())
	if !p.IsValid() {
		return "?"
	}
	return fmt.Sprintf("%s:%d", shortFile(p.Filename), p.Line)
}

func (an *accAn) record(ins ssa.Instruction, f *ssa.Function, c *accCtx, held map[string]string, after map[string]bool, cell string, write bool, kind, callee string) {
	if cell == "" {
		return
	}
	s := AccessSite{Cell: cell, Write: write, Kind: kind, Once: c.once, Init: c.init, Func: fnName(rootFn(f)), Pos: an.posOf(ins), Callee: callee, Held: []string{}, After: []string{}}
	for k, m := range held {
		s.Held = append(s.Held, k+":"+m)
	}
	sort.Strings(s.Held)
	for k := range after {
		s.After = append(s.After, k)
	}
	sort.Strings(s.After)
	an.sites[siteKey(s)] = s
}

type bstate struct {
	held  map[string]string
	after map[string]bool
	top   bool
}

func meet(a, b bstate) bstate {
	if a.top {
		return bstate{held: copyHeld(b.held), after: copySet(b.after), top: b.top}
	}
	if b.top {
		return bstate{held: copyHeld(a.held), after: copySet(a.after)}
	}
	r := bstate{held: map[string]string{}, after: map[string]bool{}}
	for k, m := range a.held {
		if m2, ok := b.held[k]; ok {
			if m == "W" && m2 == "W" {
				r.held[k] = "W"
			} else {
				r.held[k] = "R"
			}
		}
	}
	for k := range a.after {
		if b.after[k] {
			r.after[k] = true
		}
	}
	return r
}

func sameState(a, b bstate) bool {
	return a.top == b.top && heldList(a.held) == heldList(b.held) && setList(a.after) == setList(b.after)
}

var extWriters = map[string]bool{"sort.Strings": true, "sort.Ints": true, "sort.Slice": true, "sort.SliceStable": true, "sort.Sort": true, "sort.Stable": true}

// extWrites: the external callee writes through a reference it receives.  Not a closed list of names: every function
// of package sort except the searches / tests, and the mutating functions of slices and maps (also instantiated
// generics: "slices.Sort[...]").
func extWrites(name string) bool {
	if extWriters[name] {
		return true
	}
	base := name
	if i := strings.Index(base, "["); i >= 0 {
		base = base[:i]
	}
	switch {
	case strings.HasPrefix(base, "sort."):
		f := strings.TrimPrefix(base, "sort.")
		return !strings.HasPrefix(f, "Search") && !strings.HasSuffix(f, "AreSorted") && !strings.HasPrefix(f, "IsSorted") && f != "Find"
	case strings.HasPrefix(base, "slices."):
		f := strings.TrimPrefix(base, "slices.")
		return strings.HasPrefix(f, "Sort") || f == "Reverse"
	case strings.HasPrefix(base, "maps."):
		f := strings.TrimPrefix(base, "maps.")
		return f == "Clear" || f == "Copy" || f == "DeleteFunc" || f == "Insert"
	}
	return false
}

func (an *accAn) analyze(f *ssa.Function, c *accCtx) {
	if len(f.Blocks) == 0 {
		return
	}
	key := ctxKey(f, c)
	if an.memo[key] {
		return
	}
	an.memo[key] = true
	if an.depth > 40 {
		an.dynamic["analysis depth limit reached in "+f.String()] = true
		return
	}
	an.depth++
	defer func() { an.depth-- }()

	// forward must-analysis of held locks / completed Once.Do calls
	in := make([]bstate, len(f.Blocks))
	outS := make([]bstate, len(f.Blocks))
	for i := range in {
		in[i] = bstate{top: true}
		outS[i] = bstate{top: true}
	}
	in[0] = bstate{held: copyHeld(c.held), after: copySet(c.after)}
	transfer := func(b *ssa.BasicBlock, st bstate, emit bool) bstate {
		held, after := copyHeld(st.held), copySet(st.after)
		for _, ins := range b.Instrs {
			an.instr(f, c, ins, held, after, emit)
		}
		return bstate{held: held, after: after}
	}
	for iter := 0; iter < 20; iter++ {
		changed := false
		for i, b := range f.Blocks {
			if i > 0 {
				st := bstate{top: true}
				for _, p := range b.Preds {
					st = meet(st, outS[p.Index])
				}
				if !sameState(st, in[i]) {
					in[i] = st
					changed = true
				}
			}
			if in[i].top {
				continue
			}
			o := transfer(b, in[i], false)
			if !sameState(o, outS[i]) {
				outS[i] = o
				changed = true
			}
		}
		if !changed {
			break
		}
	}
	for i, b := range f.Blocks {
		if in[i].top {
			continue // unreachable
		}
		transfer(b, in[i], true)
	}
}

func lockMethod(c *ssa.CallCommon) (method string, ok bool) {
	sc := c.StaticCallee()
	if sc == nil {
		return "", false
	}
	switch sc.String() {
	case "(*sync.Mutex).Lock", "(*sync.RWMutex).Lock":
		return "Lock", true
	case "(*sync.Mutex).Unlock", "(*sync.RWMutex).Unlock":
		return "Unlock", true
	case "(*sync.RWMutex).RLock":
		return "RLock", true
	case "(*sync.RWMutex).RUnlock":
		return "RUnlock", true
	case "(*sync.Mutex).TryLock", "(*sync.RWMutex).TryLock", "(*sync.RWMutex).TryRLock":
		return "Try", true
	}
	return "", false
}

func (an *accAn) instr(f *ssa.Function, c *accCtx, ins ssa.Instruction, held map[string]string, after map[string]bool, emit bool) {
	rec := func(cell string, write bool, kind, callee string) {
		if emit {
			an.record(ins, f, c, held, after, cell, write, kind, callee)
		}
	}
	switch x := ins.(type) {
	case *ssa.UnOp:
		if x.Op == token.MUL {
			rec(an.cellOf(x.X, c, 0), false, "plain", "")
		}
	case *ssa.Store:
		dst := an.cellOf(x.Addr, c, 0)
		rec(dst, true, "plain", "")
		if emit && dst == "" && isRefType(x.Val.Type()) {
			if src := an.cellOf(x.Val, c, 0); src != "" {
				// a reference to package-level state is stored into an object that is not package-level state:
				// accesses through that object are not in the table
				an.dynamic["reference to "+src+" stored into a heap object in "+fnName(rootFn(f))+" ("+an.posOf(ins)+")"] = true
			}
		}
	case *ssa.Return:
		if emit && !c.init {
			for _, r := range x.Results {
				if isRefType(r.Type()) {
					if src := an.cellOf(r, c, 0); src != "" && len(c.bind) == 0 {
						an.dynamic["reference to "+src+" returned by "+fnName(rootFn(f))+" ("+an.posOf(ins)+")"] = true
					}
				}
			}
		}
	case *ssa.MapUpdate:
		rec(an.cellOf(x.Map, c, 0), true, "plain", "")
	case *ssa.Lookup:
		if _, isMap := x.X.Type().Underlying().(*types.Map); isMap {
			rec(an.cellOf(x.X, c, 0), false, "plain", "")
		}
	case *ssa.Range:
		rec(an.cellOf(x.X, c, 0), false, "plain", "")
	case *ssa.Index:
		// element read of an array value: covered by the load of the array
	case *ssa.Go:
		if emit {
			an.call(f, c, ins, x.Common(), map[string]string{}, map[string]bool{}, emit)
		}
	case *ssa.Defer:
		if m, ok := lockMethod(x.Common()); ok && (m == "Unlock" || m == "RUnlock") {
			return // released at function exit
		}
		if x.Common().StaticCallee() == nil && !x.Common().IsInvoke() {
			if cell, _, _ := an.unlockValue(x.Common().Value, c, 0); cell != "" {
				return // defer unlock() for unlock := g.guard(): released at function exit
			}
		}
		if emit {
			an.call(f, c, ins, x.Common(), held, after, emit)
		}
	case *ssa.Call:
		cc := x.Common()
		if m, ok := lockMethod(cc); ok && len(cc.Args) > 0 {
			cell := an.cellOf(cc.Args[0], c, 0)
			rec(cell, true, "sync", "")
			if cell != "" {
				switch m {
				case "Lock":
					held[cell] = "W"
				case "RLock":
					if held[cell] != "W" {
						held[cell] = "R"
					}
				case "Unlock", "RUnlock":
					delete(held, cell)
				}
			}
			return
		}
		if cc.StaticCallee() == nil && !cc.IsInvoke() {
			// unlock() for unlock := g.guard() / unlock := m.mu.Unlock: the call is the Unlock of the cell
			if cell, _, _ := an.unlockValue(cc.Value, c, 0); cell != "" {
				rec(cell, true, "sync", "")
				delete(held, cell)
				return
			}
		}
		an.call(f, c, ins, cc, held, after, emit)
		// what the callee does to the locks: a lock helper returns with the lock taken, an unlock helper releases it
		if sc := cc.StaticCallee(); sc != nil && an.libPkgs[sc.Pkg] != "" && len(sc.Blocks) > 0 {
			bind := map[ssa.Value]string{}
			for i, a := range cc.Args {
				if i < len(sc.Params) {
					if cell := an.cellOf(a, c, 0); cell != "" {
						bind[sc.Params[i]] = cell
					}
				}
			}
			eff := an.lockEffect(sc, bind, 0)
			if eff.killAll {
				for k := range held {
					delete(held, k)
				}
			}
			for k := range eff.kill {
				delete(held, k)
			}
			for k, m := range eff.gen {
				held[k] = m
			}
		}
		if isOnceDo(cc) && len(cc.Args) == 2 {
			if cell := an.cellOf(cc.Args[0], c, 0); cell != "" {
				after[cell] = true
			}
		}
	}
}

func (an *accAn) call(f *ssa.Function, c *accCtx, ins ssa.Instruction, cc *ssa.CallCommon, held map[string]string, after map[string]bool, emit bool) {
	rec := func(cell string, write bool, kind, callee string) {
		if emit {
			an.record(ins, f, c, held, after, cell, write, kind, callee)
		}
	}
	if cc.IsInvoke() {
		if cell := an.cellOf(cc.Value, c, 0); cell != "" {
			rec(cell, false, "escape", "invoke "+cc.Method.Name())
		}
		return
	}
	if bi, ok := cc.Value.(*ssa.Builtin); ok {
		switch bi.Name() {
		case "delete":
			if len(cc.Args) > 0 {
				rec(an.cellOf(cc.Args[0], c, 0), true, "plain", "")
			}
		case "len", "cap":
			if len(cc.Args) > 0 {
				if _, isStr := cc.Args[0].Type().Underlying().(*types.Basic); !isStr {
					rec(an.cellOf(cc.Args[0], c, 0), false, "plain", "")
				}
			}
		case "append":
			for _, a := range cc.Args {
				rec(an.cellOf(a, c, 0), false, "plain", "")
			}
		case "copy":
			if len(cc.Args) == 2 {
				rec(an.cellOf(cc.Args[0], c, 0), true, "plain", "")
				rec(an.cellOf(cc.Args[1], c, 0), false, "plain", "")
			}
		case "clear":
			if len(cc.Args) > 0 {
				rec(an.cellOf(cc.Args[0], c, 0), true, "plain", "")
			}
		}
		return
	}
	sc := cc.StaticCallee()
	if sc == nil {
		if fb, ok := c.fns[cc.Value]; ok {
			// a call of a func-typed parameter that was given a known function: it runs here, with what is held here
			if emit {
				nc := &accCtx{held: copyHeld(held), after: copySet(after), init: c.init, once: c.once, bind: map[ssa.Value]string{}, fns: map[ssa.Value]fnBind{}}
				for i, a := range cc.Args {
					if i < len(fb.fn.Params) {
						if cell := an.cellOf(a, c, 0); cell != "" {
							nc.bind[fb.fn.Params[i]] = cell
						}
					}
				}
				if fb.val != nil {
					an.bindClosure(fb.val, fb.fn, fb.ctx, nc)
				}
				an.analyze(fb.fn, nc)
			}
			return
		}
		// call through a function value: its arguments escape
		if emit {
			for _, a := range cc.Args {
				if cell := an.cellOf(a, c, 0); cell != "" && isRefType(a.Type()) {
					rec(cell, false, "escape", "function value")
				}
			}
			if cell := an.cellOf(cc.Value, c, 0); cell != "" {
				an.dynamic["call through a function value stored in "+cell+" ("+fnName(rootFn(f))+")"] = true
			}
		}
		return
	}
	name := sc.String()
	pkgPath := ""
	if sc.Pkg != nil {
		pkgPath = sc.Pkg.Pkg.Path()
	}
	// sync/atomic functions and methods
	if pkgPath == "sync/atomic" && len(cc.Args) > 0 {
		write := !strings.Contains(sc.Name(), "Load")
		rec(an.cellOf(cc.Args[0], c, 0), write, "atomic", "")
		return
	}
	if pkgPath == "sync" && len(cc.Args) > 0 {
		cell := an.cellOf(cc.Args[0], c, 0)
		rec(cell, true, "sync", "")
		if isOnceDo(cc) && len(cc.Args) == 2 && emit {
			if fn := funcOf(cc.Args[1]); fn != nil && an.libPkgs[fn.Pkg] != "" {
				nc := &accCtx{held: copyHeld(held), after: copySet(after), init: c.init, once: cell, bind: map[ssa.Value]string{}}
				if nc.once == "" {
					nc.once = "?"
				}
				an.bindClosure(cc.Args[1], fn, c, nc)
				an.analyze(fn, nc)
			}
		}
		// values stored into a pool / map escape into it; nothing else to follow
		return
	}
	if _, isLibFn := an.libPkgs[sc.Pkg]; !isLibFn || len(sc.Blocks) == 0 {
		// external function: arguments rooted in package-level state escape
		for _, a := range cc.Args {
			if cell := an.cellOf(a, c, 0); cell != "" && isRefType(a.Type()) {
				rec(cell, extWrites(name), "escape", name)
			}
		}
		// function arguments (callbacks) run in the caller's context
		if emit {
			for _, a := range cc.Args {
				if fn := funcOf(a); fn != nil && an.libPkgs[fn.Pkg] != "" {
					nc := &accCtx{held: copyHeld(held), after: copySet(after), init: c.init, once: c.once, bind: map[ssa.Value]string{}}
					an.bindClosure(a, fn, c, nc)
					an.analyze(fn, nc)
				}
			}
		}
		return
	}
	if !emit {
		return
	}
	// library function: follow with parameter bindings and the locks held here
	nc := &accCtx{held: copyHeld(held), after: copySet(after), init: c.init, once: c.once, bind: map[ssa.Value]string{}, fns: map[ssa.Value]fnBind{}}
	for i, a := range cc.Args {
		if i < len(sc.Params) {
			if cell := an.cellOf(a, c, 0); cell != "" {
				nc.bind[sc.Params[i]] = cell
			}
			if fn := funcOf(a); fn != nil && an.libPkgs[fn.Pkg] != "" {
				nc.fns[sc.Params[i]] = fnBind{fn: fn, val: a, ctx: c}
			} else if fb, ok := c.fns[a]; ok {
				nc.fns[sc.Params[i]] = fb
			}
		}
	}
	if mc, ok := cc.Value.(*ssa.MakeClosure); ok {
		an.bindClosure(mc, sc, c, nc)
	}
	if _, isGo := ins.(*ssa.Go); isGo {
		nc.held, nc.after = map[string]string{}, map[string]bool{}
	}
	an.analyze(sc, nc)
}

// bindClosure: free variables of fn bound to cells where the captured value is rooted in package-level state
func (an *accAn) bindClosure(v ssa.Value, fn *ssa.Function, c *accCtx, nc *accCtx) {
	mc, ok := v.(*ssa.MakeClosure)
	if !ok {
		return
	}
	for i, b := range mc.Bindings {
		if i < len(fn.FreeVars) {
			if cell := an.cellOf(b, c, 0); cell != "" {
				nc.bind[fn.FreeVars[i]] = cell
			} else if al, ok := b.(*ssa.Alloc); ok {
				// a local captured by reference that holds one reference into package-level state
				if cell := an.localCell(al, c, 0); cell != "" {
					nc.bind[derefOf{fn.FreeVars[i]}] = cell
				}
			} else if cell, ok := c.bind[derefOf{b}]; ok {
				nc.bind[derefOf{fn.FreeVars[i]}] = cell // captured again by an inner closure
			}
		}
	}
}

// lockEffect: what a call of f does to the set of certainly held locks, seen from the caller: kill = locks it may
// release on some path, gen = locks it certainly holds when it returns (taken on every path and neither released nor
// scheduled for release by a defer).  A forward must-analysis over f's lock operations and its library callees'
// effects; recursion and the depth limit answer "may release anything, certainly holds nothing".
type lockEff struct {
	gen     map[string]string
	kill    map[string]bool
	killAll bool
}

func (an *accAn) lockEffect(f *ssa.Function, bind map[ssa.Value]string, depth int) lockEff {
	if an.effMemo == nil {
		an.effMemo = map[string]*lockEff{}
	}
	var b []string
	for v, cell := range bind {
		b = append(b, v.Name()+"="+cell)
	}
	sort.Strings(b)
	key := fmt.Sprintf("%p|%s", f, strings.Join(b, ","))
	if e, ok := an.effMemo[key]; ok {
		if e == nil {
			return lockEff{killAll: true}
		}
		return *e
	}
	if depth > 8 {
		return lockEff{killAll: true}
	}
	an.effMemo[key] = nil // in progress
	c := &accCtx{held: map[string]string{}, after: map[string]bool{}, bind: bind}
	type st struct {
		gen     map[string]string
		kill    map[string]bool
		killAll bool
		top     bool
	}
	cp := func(x st) st {
		r := st{gen: copyHeld(x.gen), kill: copySet(x.kill), killAll: x.killAll, top: x.top}
		if r.gen == nil {
			r.gen = map[string]string{}
		}
		if r.kill == nil {
			r.kill = map[string]bool{}
		}
		return r
	}
	join := func(a, b st) st {
		if a.top {
			return cp(b)
		}
		if b.top {
			return cp(a)
		}
		r := st{gen: map[string]string{}, kill: copySet(a.kill), killAll: a.killAll || b.killAll}
		for k, m := range a.gen {
			if m2, ok := b.gen[k]; ok {
				if m == "W" && m2 == "W" {
					r.gen[k] = "W"
				} else {
					r.gen[k] = "R"
				}
			}
		}
		for k := range b.kill {
			r.kill[k] = true
		}
		return r
	}
	same := func(a, b st) bool {
		return a.top == b.top && a.killAll == b.killAll && heldList(a.gen) == heldList(b.gen) && setList(a.kill) == setList(b.kill)
	}
	deferred := map[string]bool{}
	deferredAll := false // a deferred call that may release anything
	for _, blk := range f.Blocks {
		for _, ins := range blk.Instrs {
			if d, ok := ins.(*ssa.Defer); ok {
				dc := d.Common()
				if m, ok := lockMethod(dc); ok {
					if (m == "Unlock" || m == "RUnlock") && len(dc.Args) > 0 {
						if cell := an.cellOf(dc.Args[0], c, 0); cell != "" {
							deferred[cell] = true
						}
					}
					continue
				}
				// defer func() { m.Unlock() }() / defer release(): what the deferred library function may release is (maybe)
				// released when f returns; what it takes is not claimed to be held
				if sc := dc.StaticCallee(); sc != nil && an.libPkgs[sc.Pkg] != "" && len(sc.Blocks) > 0 {
					nc := &accCtx{bind: map[ssa.Value]string{}}
					for i, a := range dc.Args {
						if i < len(sc.Params) {
							if cell := an.cellOf(a, c, 0); cell != "" {
								nc.bind[sc.Params[i]] = cell
							}
						}
					}
					an.bindClosure(dc.Value, sc, c, nc)
					e := an.lockEffect(sc, nc.bind, depth+1)
					if e.killAll {
						deferredAll = true
					}
					for k := range e.kill {
						deferred[k] = true
					}
				} else if dc.StaticCallee() == nil && !dc.IsInvoke() {
					if cell, _, _ := an.unlockValue(dc.Value, c, 0); cell != "" {
						deferred[cell] = true
					} else if _, isBuiltin := dc.Value.(*ssa.Builtin); !isBuiltin {
						deferredAll = true
					}
				}
			}
		}
	}
	in := make([]st, len(f.Blocks))
	outS := make([]st, len(f.Blocks))
	for i := range in {
		in[i], outS[i] = st{top: true}, st{top: true}
	}
	in[0] = st{gen: map[string]string{}, kill: map[string]bool{}}
	exit := st{top: true}
	transfer := func(blk *ssa.BasicBlock, x st) st {
		x = cp(x)
		x.top = false
		for _, ins := range blk.Instrs {
			switch y := ins.(type) {
			case *ssa.Call:
				cc := y.Common()
				if m, ok := lockMethod(cc); ok && len(cc.Args) > 0 {
					cell := an.cellOf(cc.Args[0], c, 0)
					if cell == "" {
						continue
					}
					switch m {
					case "Lock":
						x.gen[cell] = "W"
					case "RLock":
						if x.gen[cell] != "W" {
							x.gen[cell] = "R"
						}
					case "Unlock", "RUnlock":
						delete(x.gen, cell)
						x.kill[cell] = true
					}
					continue
				}
				if sc := cc.StaticCallee(); sc != nil && an.libPkgs[sc.Pkg] != "" && len(sc.Blocks) > 0 {
					nb := map[ssa.Value]string{}
					for i, a := range cc.Args {
						if i < len(sc.Params) {
							if cell := an.cellOf(a, c, 0); cell != "" {
								nb[sc.Params[i]] = cell
							}
						}
					}
					e := an.lockEffect(sc, nb, depth+1)
					if e.killAll {
						x.killAll = true
						x.gen = map[string]string{}
					}
					for k := range e.kill {
						delete(x.gen, k)
						x.kill[k] = true
					}
					for k, m := range e.gen {
						x.gen[k] = m
					}
				} else if cc.StaticCallee() == nil && !cc.IsInvoke() {
					if cell, _, _ := an.unlockValue(cc.Value, c, 0); cell != "" {
						delete(x.gen, cell)
						x.kill[cell] = true
					} else if _, isBuiltin := cc.Value.(*ssa.Builtin); !isBuiltin {
						// a function value: it may be anything of the library, also an unlock helper
						x.killAll = true
						x.gen = map[string]string{}
					}
				}
			case *ssa.Return:
				r := cp(x)
				if deferredAll {
					r.killAll = true
					r.gen = map[string]string{}
				}
				for cell := range deferred {
					delete(r.gen, cell)
					r.kill[cell] = true
				}
				exit = join(exit, r)
			}
		}
		return x
	}
	for iter := 0; iter < 20; iter++ {
		changed := false
		exit = st{top: true}
		for i, blk := range f.Blocks {
			if i > 0 {
				x := st{top: true}
				for _, p := range blk.Preds {
					x = join(x, outS[p.Index])
				}
				if !same(x, in[i]) {
					in[i] = x
					changed = true
				}
			}
			if in[i].top {
				continue
			}
			o := transfer(blk, in[i])
			if !same(o, outS[i]) {
				outS[i] = o
				changed = true
			}
		}
		if !changed {
			break
		}
	}
	res := lockEff{gen: map[string]string{}, kill: map[string]bool{}}
	if !exit.top {
		res = lockEff{gen: exit.gen, kill: exit.kill, killAll: exit.killAll}
	}
	an.effMemo[key] = &res
	return res
}
