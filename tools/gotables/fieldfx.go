package main

// fieldfx: per-method field effects of the reusable instance types (parser.Parser, tokenizer.Tokenizer), from SSA.
// For every exported method with receiver *T and every exported function with a *T parameter (files named
// verif_hooks*.go excluded), and for every field f of T:
//
//	reads  : the incoming value of f may be read: a load of f (directly, through a static callee, a closure, a deferred
//	         closure, or a call through a function value, resolved to its possible targets: see callees) at a point
//	         where f is not definitely assigned since entry.  A load whose only use is to be stored back into the same
//	         field of the same instance (identity copy, see identityStores) is not a read.
//	class  : none         no store to f on any path (transitively)
//	         balanced     the only stores are f = f + c paired, in the same block, with a deferred f = f - c
//	         must         f is assigned on every path to a normal return (paths on which the instance pointer is nil excluded)
//	         zero_or_keep every store of a non-zero value is paired, in the same block, with a deferred store of the zero
//	                      value, and every other store stores the zero value
//	         may          anything else
//	allzero: every store to f (transitively) stores the zero value of its type
//
// A store of the field's own current value (`x.f = x.f`, or `f: x.f` inside `*x = T{...}`) is no store: the field keeps
// its value.
//
// Sound over-approximation of reads / under-approximation of must for straight Go (no reflection, no unsafe).
import (
	"go/constant"
	"go/token"
	"go/types"
	"path/filepath"
	"sort"
	"strings"

	"golang.org/x/tools/go/packages"
	"golang.org/x/tools/go/ssa"
)

type FxRow struct {
	Method  string   `json:"method"`
	Reads   []bool   `json:"reads"`
	Class   []string `json:"class"`
	AllZero []bool   `json:"allzero"`
}

type FxType struct {
	Pkg    string   `json:"pkg"`
	Type   string   `json:"type"`
	Fields []string `json:"fields"`
	Rows   []FxRow  `json:"rows"`
	// Roles: model field (role) -> current name of the struct field that plays it (roles.go); FieldTypes: per field
	Roles      map[string]string `json:"roles"`
	FieldTypes []string          `json:"field_types"`
	Counter    string            `json:"counter,omitempty"` // the field the C02 recogniser identified as the depth counter
}

type fset uint64

type fxSummary struct {
	mayRead, mayWrite, must, ri fset
	nonzeroStore                fset // some store of a value not known to be zero
	unbalanced                  fset // some store that is not part of a balanced inc/dec pair
	unpairedNonzero             fset // some non-zero store without a deferred zero store in the same block
}

type fxAnalysis struct {
	prog   *ssa.Program
	pkg    *ssa.Package
	target *types.Named
	nf     int
	all    fset
	fns    []*ssa.Function
	sum    map[*ssa.Function]*fxSummary
	// address-taken functions of the package (closures that are not called where they are made, named functions,
	// method values and method expressions used as values), by signature: the possible targets of a call through a
	// function value of that signature
	bySig map[string][]*ssa.Function
	// depth counter of T as identified by the C02 recogniser (depthguard.go), -1 if none: its "balanced" class is
	// decided by that recogniser's data flow (net step 0 on every return path), helpers inlined into their callers
	ctr int
	di  *depthInfo
}

// ctrNeutral: stores to the counter inside fn are accounted for by the recogniser: fn (or the function fn is a
// closure of) is balanced, or a helper that is judged as part of each of its callers
func (a *fxAnalysis) ctrNeutral(fn *ssa.Function) bool {
	r := rootFn(fn)
	return a.di != nil && (a.di.Balanced[r] || a.di.Helpers[r])
}

func (a *fxAnalysis) isTargetPtr(t types.Type) bool {
	p, ok := t.Underlying().(*types.Pointer)
	if !ok {
		return false
	}
	n, ok := p.Elem().(*types.Named)
	return ok && n.Obj() == a.target.Obj()
}

// fieldOf: v is &x.f with x of type *T
func (a *fxAnalysis) fieldOf(v ssa.Value) (int, bool) {
	fa, ok := v.(*ssa.FieldAddr)
	if !ok || !a.isTargetPtr(fa.X.Type()) {
		return 0, false
	}
	return fa.Field, true
}

func isZeroValue(v ssa.Value) bool {
	c, ok := v.(*ssa.Const)
	if !ok {
		return false
	}
	if c.Value == nil {
		return true // nil / zero value of an aggregate
	}
	switch c.Value.Kind() {
	case constant.Bool:
		return !constant.BoolVal(c.Value)
	case constant.String:
		return constant.StringVal(c.Value) == ""
	case constant.Int, constant.Float, constant.Complex:
		return constant.Sign(c.Value) == 0
	}
	return false
}

// isZeroStruct: v is the zero value of a struct type: a zero constant, or the load of a local composite literal
// none of whose fields is stored
func isZeroStruct(v ssa.Value) bool {
	if isZeroValue(v) {
		return true
	}
	u, ok := v.(*ssa.UnOp)
	if !ok || u.Op != token.MUL {
		return false
	}
	al, ok := u.X.(*ssa.Alloc)
	if !ok || al.Referrers() == nil {
		return false
	}
	for _, r := range *al.Referrers() {
		switch y := r.(type) {
		case *ssa.UnOp:
			if y.Op != token.MUL {
				return false
			}
		case *ssa.DebugRef:
		default:
			return false
		}
	}
	return true
}

// onlyLoads: every use of the address v (possibly through nested field / index addresses) is a load
func onlyLoads(v ssa.Value, depth int) bool {
	refs := v.Referrers()
	if refs == nil || depth > 6 {
		return false
	}
	for _, r := range *refs {
		switch x := r.(type) {
		case *ssa.UnOp:
			if x.Op != token.MUL {
				return false
			}
		case *ssa.FieldAddr:
			if !onlyLoads(x, depth+1) {
				return false
			}
		case *ssa.IndexAddr:
			if x.X != v || !onlyLoads(x, depth+1) {
				return false
			}
		case *ssa.DebugRef:
		default:
			return false
		}
	}
	return true
}

func (a *fxAnalysis) allFuncs() {
	seen := map[*ssa.Function]bool{}
	var add func(f *ssa.Function)
	add = func(f *ssa.Function) {
		if f == nil || seen[f] || len(f.Blocks) == 0 {
			return
		}
		seen[f] = true
		a.fns = append(a.fns, f)
		for _, an := range f.AnonFuncs {
			add(an)
		}
	}
	for _, m := range a.pkg.Members {
		if f, ok := m.(*ssa.Function); ok {
			add(f)
		}
		if t, ok := m.(*ssa.Type); ok {
			for _, ty := range []types.Type{t.Type(), types.NewPointer(t.Type())} {
				ms := a.prog.MethodSets.MethodSet(ty)
				for i := 0; i < ms.Len(); i++ {
					add(a.prog.MethodValue(ms.At(i)))
				}
			}
		}
	}
	// Function values.  A call through a function value can only reach the unexported fields of T through a function
	// written in this package (a closure written elsewhere reaches them only through the exported methods, i.e. it is
	// the holder using the API).  The possible targets of such a call are therefore the functions of the package that
	// are ever used as a VALUE - a closure that is not called where it is made (stored in a package-level map / slice /
	// struct, returned, passed on), a named function, a method value p.m (go/ssa: closure over a synthetic bound-method
	// wrapper) or a method expression (*T).m (synthetic thunk) - and whose signature is the signature of the called
	// value.  The synthetic wrappers are analysed like any other function (their body is the static call of the method).
	taken := map[*ssa.Function]bool{}
	own := func(g *ssa.Function) bool {
		if r := rootFn(g); r != nil && r.Pkg == a.pkg {
			return true
		}
		return g.Pkg == nil && g.Synthetic != "" && a.wrapsOwn(g) // bound-method wrapper / thunk of a method of this package
	}
	var work []*ssa.Function
	enter := func(g *ssa.Function) { // make sure g is analysed
		if g != nil && !seen[g] && len(g.Blocks) > 0 {
			seen[g] = true
			a.fns = append(a.fns, g)
			work = append(work, g)
		}
	}
	use := func(g *ssa.Function) { // g is used as a value
		if g != nil && !taken[g] && own(g) {
			taken[g] = true
			enter(g)
		}
	}
	scan := func(f *ssa.Function) {
		for _, b := range f.Blocks {
			for _, ins := range b.Instrs {
				if mc, ok := ins.(*ssa.MakeClosure); ok {
					g, _ := mc.Fn.(*ssa.Function)
					if g == nil {
						continue
					}
					if own(g) {
						enter(g)
					}
					calledInPlace := true
					if refs := mc.Referrers(); refs != nil {
						for _, r := range *refs {
							if _, dbg := r.(*ssa.DebugRef); dbg {
								continue
							}
							ci, ok := r.(ssa.CallInstruction)
							if !ok || ci.Common().IsInvoke() || ci.Common().Value != ssa.Value(mc) || usedAsArg(ci.Common(), mc) {
								calledInPlace = false
							}
						}
					}
					if !calledInPlace {
						use(g)
					}
					continue
				}
				var callee ssa.Value
				if ci, ok := ins.(ssa.CallInstruction); ok && !ci.Common().IsInvoke() {
					callee = ci.Common().Value
				}
				for _, op := range ins.Operands(nil) {
					if op == nil || *op == nil {
						continue
					}
					g, ok := (*op).(*ssa.Function)
					if !ok {
						continue
					}
					if callee != nil && *op == callee && !usedAsArg(ins.(ssa.CallInstruction).Common(), callee) {
						continue // in call position only: a static call
					}
					use(g)
				}
			}
		}
	}
	work = append(work, a.fns...)
	for len(work) > 0 {
		f := work[0]
		work = work[1:]
		scan(f)
	}
	sort.Slice(a.fns, func(i, j int) bool { return a.fns[i].String() < a.fns[j].String() })
	for _, f := range a.fns {
		if taken[f] {
			k := sigKey(f.Signature)
			a.bySig[k] = append(a.bySig[k], f)
		}
	}
}

// wrapsOwn: g is a synthetic wrapper (bound method closure, thunk) of a method declared in this package
func (a *fxAnalysis) wrapsOwn(g *ssa.Function) bool {
	for _, b := range g.Blocks {
		for _, ins := range b.Instrs {
			if ci, ok := ins.(ssa.CallInstruction); ok {
				if sc := ci.Common().StaticCallee(); sc != nil && sc.Pkg == a.pkg {
					return true
				}
			}
		}
	}
	return false
}

func usedAsArg(c *ssa.CallCommon, v ssa.Value) bool {
	for _, arg := range c.Args {
		if arg == v {
			return true
		}
	}
	return false
}

// sigKey: parameter and result types of a signature (receiver and parameter names left out)
func sigKey(sig *types.Signature) string {
	var sb strings.Builder
	tup := func(t *types.Tuple) {
		for i := 0; i < t.Len(); i++ {
			sb.WriteString(types.TypeString(t.At(i).Type(), nil))
			sb.WriteByte(';')
		}
	}
	tup(sig.Params())
	if sig.Variadic() {
		sb.WriteString("...")
	}
	sb.WriteString(" -> ")
	tup(sig.Results())
	return sb.String()
}

// localTargets: the functions a function value stands for when that is decided inside the calling function: a closure
// or function constant, possibly through conversions to a named function type and through the phi of a local variable
// assigned on several branches (`parse = p.parseSelect` in the arms of a switch)
func localTargets(v ssa.Value, depth int, seen map[ssa.Value]bool) ([]*ssa.Function, bool) {
	if depth > 8 {
		return nil, false
	}
	if seen[v] {
		return nil, true
	}
	seen[v] = true
	switch x := v.(type) {
	case *ssa.Function:
		return []*ssa.Function{x}, true
	case *ssa.MakeClosure:
		if g, ok := x.Fn.(*ssa.Function); ok {
			return []*ssa.Function{g}, true
		}
	case *ssa.ChangeType:
		return localTargets(x.X, depth+1, seen)
	case *ssa.Phi:
		var out []*ssa.Function
		for _, e := range x.Edges {
			if c, ok := e.(*ssa.Const); ok && c.Value == nil {
				continue // a nil function value: calling it panics, no callee
			}
			fs, ok := localTargets(e, depth+1, seen)
			if !ok {
				return nil, false
			}
			out = append(out, fs...)
		}
		return out, true
	}
	return nil, false
}

// callees of a call instruction: the static callee or closure; for a call through a function value the functions the
// value can stand for: decided locally (localTargets), else every address-taken function of the package with the
// value's signature (allFuncs).  unknown: the call may do anything to a T (a *T handed to code that is not analysed, or a
// function value taking a *T for which the package has no candidate at all).
func (a *fxAnalysis) callees(c *ssa.CallCommon) (fs []*ssa.Function, unknown bool) {
	if c.IsInvoke() {
		// a method with an unexported name: the methods of that name in its package are all it can run (closedworld.go)
		if ts, ok := a.invokeAnalysed(c); ok {
			return ts, false
		}
		// interface method call: cannot reach the unexported fields of T except through a *T argument
		for _, arg := range c.Args {
			if a.isTargetPtr(arg.Type()) {
				return nil, true
			}
		}
		return nil, false
	}
	if sc := c.StaticCallee(); sc != nil {
		if _, analysed := a.sum[sc]; analysed {
			return []*ssa.Function{sc}, false
		}
		// function of another package: can reach T's unexported fields only through exported methods on a *T argument
		// (function values among its arguments: see argFuncs)
		for _, arg := range c.Args {
			if a.isTargetPtr(arg.Type()) {
				return nil, true
			}
		}
		return nil, false
	}
	if _, isBuiltin := c.Value.(*ssa.Builtin); isBuiltin {
		return nil, false
	}
	sig, ok := c.Value.Type().Underlying().(*types.Signature)
	if !ok {
		return nil, false
	}
	if ts, ok := localTargets(c.Value, 0, map[ssa.Value]bool{}); ok {
		all := true
		for _, g := range ts {
			if _, analysed := a.sum[g]; !analysed {
				all = false
			}
		}
		if all {
			return ts, false
		}
	}
	if ts := a.bySig[sigKey(sig)]; len(ts) > 0 {
		return ts, false
	}
	for i := 0; i < sig.Params().Len(); i++ {
		if a.isTargetPtr(sig.Params().At(i).Type()) {
			return nil, true
		}
	}
	return nil, false
}

// argFuncs: functions of the package handed as VALUES to a call whose callee is not analysed (sort.Search(n, func...),
// an interface method): the callee may call them any number of times, or not at all
func (a *fxAnalysis) argFuncs(c *ssa.CallCommon) []*ssa.Function {
	if !c.IsInvoke() {
		if sc := c.StaticCallee(); sc != nil {
			if _, analysed := a.sum[sc]; analysed {
				return nil // the callee's own calls through its parameters are resolved by signature
			}
		} else if _, isBuiltin := c.Value.(*ssa.Builtin); !isBuiltin {
			return nil // call through a function value: resolved to functions of the package, see above
		}
	} else if _, ok := a.invokeAnalysed(c); ok {
		return nil // resolved to analysed methods: as for an analysed static callee
	}
	var out []*ssa.Function
	for _, arg := range c.Args {
		if _, ok := arg.Type().Underlying().(*types.Signature); !ok {
			continue
		}
		if ts, ok := localTargets(arg, 0, map[ssa.Value]bool{}); ok {
			for _, g := range ts {
				if _, analysed := a.sum[g]; analysed {
					out = append(out, g)
				}
			}
		} else {
			out = append(out, a.bySig[sigKey(arg.Type().Underlying().(*types.Signature))]...)
		}
	}
	return out
}

// nilSide: block b ends in `if x != nil` / `if x == nil` with x of type *T: the successor index on which x is nil, or -1
func (a *fxAnalysis) nilSide(b *ssa.BasicBlock) int {
	if len(b.Instrs) == 0 {
		return -1
	}
	iff, ok := b.Instrs[len(b.Instrs)-1].(*ssa.If)
	if !ok {
		return -1
	}
	bo, ok := iff.Cond.(*ssa.BinOp)
	if !ok || (bo.Op != token.NEQ && bo.Op != token.EQL) {
		return -1
	}
	isNil := func(v ssa.Value) bool { c, ok := v.(*ssa.Const); return ok && c.Value == nil }
	var ptr ssa.Value
	if isNil(bo.Y) {
		ptr = bo.X
	} else if isNil(bo.X) {
		ptr = bo.Y
	}
	if ptr == nil || !a.isTargetPtr(ptr.Type()) {
		return -1
	}
	if bo.Op == token.NEQ {
		return 1 // false side: x == nil
	}
	return 0
}

// analyse one function with the current summaries of its callees
func (a *fxAnalysis) analyse(fn *ssa.Function) *fxSummary {
	s := &fxSummary{}
	if a.ctr >= 0 && fn.Parent() == nil && a.di.Touches[fn] && !a.di.Balanced[fn] {
		s.unbalanced |= fset(1) << uint(a.ctr) // steps the counter (possibly through helpers) without taking every step back
	}
	// deferred callees of fn, with the block that registers them
	type def struct {
		b  *ssa.BasicBlock
		fs []*ssa.Function
	}
	var defers []def
	id := a.identityStores(fn)
	// per block: balanced-pair and zero-pair bookkeeping
	for _, b := range fn.Blocks {
		for _, ins := range b.Instrs {
			if d, ok := ins.(*ssa.Defer); ok {
				fs, unknown := a.callees(&d.Call)
				if unknown {
					s.mayRead, s.mayWrite, s.nonzeroStore, s.unbalanced, s.unpairedNonzero = a.all, a.all, a.all, a.all, a.all
				}
				defers = append(defers, def{b, fs})
			}
		}
	}
	deferredZeroIn := func(b *ssa.BasicBlock, f int) bool {
		for _, d := range defers {
			if d.b != b {
				continue
			}
			for _, g := range d.fs {
				gs := a.sum[g]
				if gs != nil && gs.must&(1<<uint(f)) != 0 && gs.nonzeroStore&(1<<uint(f)) == 0 {
					return true
				}
			}
		}
		return false
	}
	deferredDecIn := func(b *ssa.BasicBlock, f int) bool {
		for _, d := range defers {
			if d.b != b {
				continue
			}
			for _, g := range d.fs {
				if a.isStep(g, f, token.SUB) {
					return true
				}
			}
		}
		return false
	}
	in := make([]fset, len(fn.Blocks))
	for i := range in {
		in[i] = a.all
	}
	in[0] = 0
	// greatest fixpoint of the must-analysis: start from "everything assigned" on every edge not yet computed
	out := make([]fset, len(fn.Blocks))
	for i := range out {
		out[i] = a.all
	}
	changed := true
	var ri fset
	exitDA := a.all
	sawReturn := false
	for iter := 0; changed && iter < 50; iter++ {
		changed = false
		ri = 0
		exitDA = a.all
		sawReturn = false
		for _, b := range fn.Blocks {
			da := in[b.Index]
			if b.Index != 0 {
				da = a.all
				for _, p := range b.Preds {
					o := out[p.Index]
					if ns := a.nilSide(p); ns >= 0 && len(p.Succs) == 2 && p.Succs[ns] == b && p.Succs[1-ns] != b {
						o = a.all
					}
					da &= o
				}
				if len(b.Preds) == 0 {
					da = a.all // unreachable (e.g. recover block)
				}
			}
			for _, ins := range b.Instrs {
				switch x := ins.(type) {
				case *ssa.FieldAddr:
					f, ok := a.fieldOf(x)
					if !ok {
						continue
					}
					bit := fset(1) << uint(f)
					refs := x.Referrers()
					fullStore := false
					otherUse := false
					loadUse := false
					if refs != nil {
						for _, r := range *refs {
							switch y := r.(type) {
							case *ssa.Store:
								if y.Addr == x {
									fullStore = true
								} else {
									otherUse = true // the address itself is stored somewhere
								}
							case *ssa.UnOp:
								if y.Op == token.MUL {
									if !id.load[y] { // a load that is only stored back into the same field observes nothing
										loadUse = true
									}
								} else {
									otherUse = true
								}
							case *ssa.DebugRef:
							case *ssa.FieldAddr:
								if onlyLoads(y, 0) {
									loadUse = true
								} else {
									otherUse = true
								}
							case *ssa.IndexAddr:
								if onlyLoads(y, 0) {
									loadUse = true
								} else {
									otherUse = true
								}
							default:
								otherUse = true
							}
						}
					}
					_ = fullStore
					if loadUse || otherUse {
						s.mayRead |= bit
						if da&bit == 0 {
							ri |= bit
						}
					}
					if otherUse {
						s.mayWrite |= bit
						s.nonzeroStore |= bit
						s.unbalanced |= bit
						s.unpairedNonzero |= bit
					}
				case *ssa.UnOp:
					// x := *p  (whole-struct load): reads every field
					if x.Op == token.MUL && a.isTargetPtr(x.X.Type()) && !id.local[x] {
						s.mayRead |= a.all
						ri |= a.all &^ da
					}
				case *ssa.Store:
					if a.isTargetPtr(x.Addr.Type()) {
						// *p = v  (whole-struct store): assigns every field (except those that get their own value back
						// from an identity store further down the block: identityStores)
						w := a.all &^ id.skip[x]
						s.mayWrite |= w
						s.unbalanced |= w
						if !isZeroStruct(x.Val) {
							s.nonzeroStore |= w &^ id.zero[x]
							s.unpairedNonzero |= w &^ id.zero[x]
						}
						da |= w
						continue
					}
					f, ok := a.fieldOf(x.Addr)
					if !ok {
						continue
					}
					bit := fset(1) << uint(f)
					if id.skip[x]&bit != 0 {
						continue // the field's own value is stored back (or a store overwritten by that one): the field keeps its value
					}
					s.mayWrite |= bit
					zero := isZeroValue(x.Val)
					if !zero {
						s.nonzeroStore |= bit
						if !deferredZeroIn(b, f) {
							s.unpairedNonzero |= bit
						}
					}
					if f == a.ctr {
						if !a.ctrNeutral(fn) {
							s.unbalanced |= bit
						}
					} else if !(a.isStepStore(x, f, token.ADD) && deferredDecIn(b, f)) && !(a.isStepStore(x, f, token.SUB) && a.isStep(fn, f, token.SUB)) {
						// a function (closure or named method) whose only store is the -1 step is not judged on its own:
						// deferred next to the +1 step it is the other half of the pair, called otherwise it is
						// charged to the caller (transitive merge below)
						s.unbalanced |= bit
					}
					da |= bit
				case *ssa.RunDefers:
					for _, d := range defers {
						for _, g := range d.fs {
							gs := a.sum[g]
							if gs == nil {
								continue
							}
							ri |= gs.ri &^ da
						}
					}
					for _, d := range defers {
						if d.b == b || d.b.Dominates(b) {
							for _, g := range d.fs {
								if gs := a.sum[g]; gs != nil {
									da |= gs.must
								}
							}
						}
					}
				case *ssa.Defer:
					// effects applied at RunDefers
				case ssa.CallInstruction:
					fs, unknown := a.callees(x.Common())
					if unknown {
						s.mayRead, s.mayWrite, s.nonzeroStore, s.unbalanced, s.unpairedNonzero = a.all, a.all, a.all, a.all, a.all
						ri |= a.all &^ da
						continue
					}
					for _, g := range a.argFuncs(x.Common()) {
						if gs := a.sum[g]; gs != nil {
							ri |= gs.ri &^ da // may be called by the callee that is not analysed
						}
					}
					if _, isGo := ins.(*ssa.Go); isGo {
						for _, g := range fs {
							if gs := a.sum[g]; gs != nil {
								ri |= gs.mayRead &^ da
							}
						}
						continue
					}
					var must fset = a.all
					if len(fs) == 0 {
						must = 0
					}
					for _, g := range fs {
						gs := a.sum[g]
						if gs == nil {
							must = 0
							continue
						}
						ri |= gs.ri &^ da
						must &= gs.must
					}
					da |= must
				case *ssa.Return:
					sawReturn = true
					exitDA &= da
				}
			}
			if out[b.Index] != da {
				out[b.Index] = da
				changed = true
			}
		}
	}
	// transitive may-sets
	for _, b := range fn.Blocks {
		for _, ins := range b.Instrs {
			ci, ok := ins.(ssa.CallInstruction)
			if !ok {
				continue
			}
			fs, _ := a.callees(ci.Common())
			for _, g := range a.argFuncs(ci.Common()) {
				if gs := a.sum[g]; gs != nil && g != fn {
					s.mayRead |= gs.mayRead
					s.mayWrite |= gs.mayWrite
					s.nonzeroStore |= gs.nonzeroStore
					s.unbalanced |= gs.unbalanced | gs.mayWrite // not a paired / deferred call: every store counts
					s.unpairedNonzero |= gs.unpairedNonzero
				}
			}
			for _, g := range fs {
				if gs := a.sum[g]; gs != nil && g != fn {
					s.mayRead |= gs.mayRead
					s.mayWrite |= gs.mayWrite
					s.nonzeroStore |= gs.nonzeroStore
					s.unbalanced |= gs.unbalanced
					// a step-only callee that is not the deferred half of a pair in this block
					for f := 0; f < a.nf; f++ {
						if f == a.ctr || !a.isStep(g, f, token.SUB) {
							continue
						}
						if _, isDefer := ins.(*ssa.Defer); !isDefer || !a.pairedInc(b, f) {
							s.unbalanced |= fset(1) << uint(f)
						}
					}
					if _, isDefer := ins.(*ssa.Defer); isDefer {
						// the deferred half of a pair is accounted for with the store it is paired with
						s.unpairedNonzero |= gs.unpairedNonzero
					} else {
						s.unpairedNonzero |= gs.unpairedNonzero
					}
				}
			}
		}
	}
	s.ri = ri
	if sawReturn {
		s.must = exitDA
	} else {
		s.must = 0
	}
	return s
}

// identityStores: stores that leave a field with the value it had.  S: `x.f = v` is an identity store when v is the
// value loaded from the same field of the same instance (same SSA pointer) earlier in the same block, and between the
// load L and S the field is written - if at all - only by stores through the same pointer (a field store, or the
// whole-struct store of `*x = T{f: x.f, ...}`, which go/ssa emits as `*x = zero; x.f = v; ...` after evaluating the
// operands), with nothing between the first such store and S that could observe or keep the intermediate value (no
// call, no load of the field).  Those stores are dead (overwritten by S) and S restores the value L saw, so the
// segment L..S is the identity on f: none of the stores counts for f (skip), f is not "assigned" by them, and a load
// all of whose uses are such stores is not a read of the incoming value (load).
type identInfo struct {
	skip  map[*ssa.Store]fset
	load  map[*ssa.UnOp]bool
	zero  map[*ssa.Store]fset // whole-struct stores: the fields known to receive the zero value (fieldfx_lit.go)
	local map[*ssa.UnOp]bool  // whole-struct loads of a struct literal under construction: no instance is read
}

func (a *fxAnalysis) identityStores(fn *ssa.Function) identInfo {
	id := identInfo{skip: map[*ssa.Store]fset{}, load: map[*ssa.UnOp]bool{}, zero: map[*ssa.Store]fset{}, local: map[*ssa.UnOp]bool{}}
	a.litIdentity(fn, &id) // struct literals built in a local / returned by a helper and stored into the instance
	strip := func(v ssa.Value) ssa.Value {
		for {
			ct, ok := v.(*ssa.ChangeType)
			if !ok {
				return v
			}
			v = ct.X
		}
	}
	identVal := map[*ssa.UnOp][]*ssa.Store{}
	for _, b := range fn.Blocks {
		pos := map[ssa.Instruction]int{}
		for i, ins := range b.Instrs {
			pos[ins] = i
		}
		for j, ins := range b.Instrs {
			st, ok := ins.(*ssa.Store)
			if !ok {
				continue
			}
			f, ok := a.fieldOf(st.Addr)
			if !ok {
				continue
			}
			base := st.Addr.(*ssa.FieldAddr).X
			ld, ok := strip(st.Val).(*ssa.UnOp)
			if !ok || ld.Op != token.MUL || ld.Block() != b {
				continue
			}
			g, ok := a.fieldOf(ld.X)
			if !ok || g != f || ld.X.(*ssa.FieldAddr).X != base {
				continue
			}
			i, ok := pos[ld]
			if !ok || i >= j {
				continue
			}
			bit := fset(1) << uint(f)
			var dead []*ssa.Store
			written, good := false, true
			for k := i + 1; k < j && good; k++ {
				switch y := b.Instrs[k].(type) {
				case *ssa.Store:
					if a.isTargetPtr(y.Addr.Type()) {
						if y.Addr == base {
							dead, written = append(dead, y), true
						} else {
							good = false // another instance (or this one under another name) is overwritten as a whole
						}
					} else if h, ok := a.fieldOf(y.Addr); ok && h == f {
						if y.Addr.(*ssa.FieldAddr).X == base {
							dead, written = append(dead, y), true
						} else {
							good = false
						}
					}
				case *ssa.UnOp:
					if y.Op == token.MUL && written {
						if h, ok := a.fieldOf(y.X); (ok && h == f) || a.isTargetPtr(y.X.Type()) {
							good = false // the intermediate value is observed
						}
					}
				case *ssa.FieldAddr:
					if h, ok := a.fieldOf(y); ok && h == f && written {
						// an address of the field taken while it holds the intermediate value: only as the address of a later store
						if refs := y.Referrers(); refs != nil {
							for _, r := range *refs {
								if s2, ok := r.(*ssa.Store); !ok || s2.Addr != ssa.Value(y) {
									if _, dbg := r.(*ssa.DebugRef); !dbg {
										good = false
									}
								}
							}
						}
					}
				case *ssa.RunDefers:
					good = false
				case ssa.CallInstruction:
					if written {
						good = false
						break
					}
					fs, unknown := a.callees(y.Common())
					if unknown {
						good = false
						break
					}
					for _, c := range append(fs, a.argFuncs(y.Common())...) {
						if cs := a.sum[c]; cs == nil || cs.mayWrite&bit != 0 {
							good = false
						}
					}
				}
			}
			if !good {
				continue
			}
			id.skip[st] |= bit
			for _, d := range dead {
				id.skip[d] |= bit
			}
			identVal[ld] = append(identVal[ld], st)
		}
	}
	for ld, sts := range identVal {
		all := true
		if refs := ld.Referrers(); refs != nil {
			for _, r := range *refs {
				if _, dbg := r.(*ssa.DebugRef); dbg {
					continue
				}
				found := false
				for _, st := range sts {
					if r == ssa.Instruction(st) {
						found = true
					}
				}
				if !found {
					all = false
				}
			}
		}
		if all {
			id.load[ld] = true
		}
	}
	return id
}

// isStepStore: st is  x.f = x.f op 1
func (a *fxAnalysis) isStepStore(st *ssa.Store, f int, op token.Token) bool {
	bo, ok := st.Val.(*ssa.BinOp)
	if !ok || bo.Op != op {
		return false
	}
	c, ok := bo.Y.(*ssa.Const)
	if !ok || c.Value == nil || c.Value.Kind() != constant.Int {
		return false
	}
	u, ok := bo.X.(*ssa.UnOp)
	if !ok || u.Op != token.MUL {
		return false
	}
	g, ok := a.fieldOf(u.X)
	return ok && g == f
}

// pairedInc: block b contains the store f = f + 1
func (a *fxAnalysis) pairedInc(b *ssa.BasicBlock, f int) bool {
	for _, ins := range b.Instrs {
		if st, ok := ins.(*ssa.Store); ok {
			if g, ok := a.fieldOf(st.Addr); ok && g == f && a.isStepStore(st, f, token.ADD) {
				return true
			}
		}
	}
	return false
}

// isStep: g is a function (closure or named method) whose only store to a field of T is  f = f op 1
func (a *fxAnalysis) isStep(g *ssa.Function, f int, op token.Token) bool {
	found := false
	for _, b := range g.Blocks {
		for _, ins := range b.Instrs {
			st, ok := ins.(*ssa.Store)
			if !ok {
				continue
			}
			h, ok := a.fieldOf(st.Addr)
			if !ok {
				continue
			}
			if h != f || !a.isStepStore(st, f, op) {
				return false
			}
			found = true
		}
	}
	return found
}

func (a *fxAnalysis) solve() {
	for _, f := range a.fns {
		a.sum[f] = &fxSummary{}
	}
	for iter := 0; iter < 40; iter++ {
		changed := false
		for _, f := range a.fns {
			n := a.analyse(f)
			if *n != *a.sum[f] {
				changed = true
				a.sum[f] = n
			}
		}
		if !changed {
			break
		}
	}
}

func fieldFx(prog *ssa.Program, p *packages.Package, typeName string, di *depthInfo) *FxType {
	obj, ok := p.Types.Scope().Lookup(typeName).(*types.TypeName)
	if !ok {
		return nil
	}
	named, ok := obj.Type().(*types.Named)
	if !ok {
		return nil
	}
	st, ok := named.Underlying().(*types.Struct)
	if !ok || st.NumFields() > 60 {
		return nil
	}
	a := &fxAnalysis{prog: prog, pkg: prog.Package(p.Types), target: named, nf: st.NumFields(), sum: map[*ssa.Function]*fxSummary{}, bySig: map[string][]*ssa.Function{}}
	a.all = fset(1)<<uint(a.nf) - 1
	a.ctr = -1
	if di != nil && di.Owner != nil && di.Owner.Obj() == named.Obj() {
		a.ctr, a.di = di.Index, di
	}
	a.allFuncs()
	a.solve()
	res := &FxType{Pkg: p.PkgPath, Type: typeName}
	qual := func(q *types.Package) string { return q.Name() }
	for i := 0; i < st.NumFields(); i++ {
		res.Fields = append(res.Fields, st.Field(i).Name())
		res.FieldTypes = append(res.FieldTypes, types.TypeString(st.Field(i).Type(), qual))
	}
	if a.ctr >= 0 {
		res.Counter = st.Field(a.ctr).Name()
	}
	res.Roles = fieldRoles(a, st, typeName)
	for _, fn := range a.fns {
		if fn.Parent() != nil || fn.Object() == nil || !fn.Object().Exported() {
			continue
		}
		file := filepath.Base(prog.Fset.Position(fn.Pos()).Filename)
		if strings.HasPrefix(file, "verif_hooks") {
			continue
		}
		touches := false
		if r := fn.Signature.Recv(); r != nil {
			touches = a.isTargetPtr(r.Type())
		} else {
			for i := 0; i < fn.Signature.Params().Len(); i++ {
				if a.isTargetPtr(fn.Signature.Params().At(i).Type()) {
					touches = true
				}
			}
		}
		if !touches {
			continue
		}
		s := a.sum[fn]
		row := FxRow{Method: fn.Name()}
		for i := 0; i < a.nf; i++ {
			bit := fset(1) << uint(i)
			row.Reads = append(row.Reads, s.ri&bit != 0)
			cls := "may"
			switch {
			case s.mayWrite&bit == 0:
				cls = "none"
			case s.unbalanced&bit == 0:
				cls = "balanced"
			case s.must&bit != 0:
				cls = "must"
			case s.unpairedNonzero&bit == 0:
				cls = "zero_or_keep"
			}
			row.Class = append(row.Class, cls)
			row.AllZero = append(row.AllZero, s.nonzeroStore&bit == 0)
		}
		res.Rows = append(res.Rows, row)
	}
	sort.Slice(res.Rows, func(i, j int) bool { return res.Rows[i].Method < res.Rows[j].Method })
	return res
}
