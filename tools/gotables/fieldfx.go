package main

// fieldfx: per-method field effects of the reusable instance types (parser.Parser, tokenizer.Tokenizer), from SSA.
// For every exported method with receiver *T and every exported function with a *T parameter (files named
// verif_hooks*.go excluded), and for every field f of T:
//
//	reads  : the incoming value of f may be read: a load of f (directly, through a static callee, a closure, a deferred
//	         closure, or a call through a func(*T) value resolved to every function of that signature in the package)
//	         at a point where f is not definitely assigned since entry
//	class  : none         no store to f on any path (transitively)
//	         balanced     the only stores are f = f + c paired, in the same block, with a deferred f = f - c
//	         must         f is assigned on every path to a normal return (paths on which the instance pointer is nil excluded)
//	         zero_or_keep every store of a non-zero value is paired, in the same block, with a deferred store of the zero
//	                      value, and every other store stores the zero value
//	         may          anything else
//	allzero: every store to f (transitively) stores the zero value of its type
//
// Sound over-approximation of reads / under-approximation of must for straight Go (no reflection, no unsafe).
import (
	"go/constant"
	"go/token"
	"go/types"
	"path/filepath"
	"sort"
	"strings"

	"golang.org/x/tools/go/packages"
	"golang.org/x/tools/go/ssa"
)

type FxRow struct {
	Method  string   `json:"method"`
	Reads   []bool   `json:"reads"`
	Class   []string `json:"class"`
	AllZero []bool   `json:"allzero"`
}

type FxType struct {
	Pkg    string   `json:"pkg"`
	Type   string   `json:"type"`
	Fields []string `json:"fields"`
	Rows   []FxRow  `json:"rows"`
	// Roles: model field (role) -> current name of the struct field that plays it (roles.go); FieldTypes: per field
	Roles      map[string]string `json:"roles"`
	FieldTypes []string          `json:"field_types"`
	Counter    string            `json:"counter,omitempty"` // the field the C02 recogniser identified as the depth counter
}

type fset uint64

type fxSummary struct {
	mayRead, mayWrite, must, ri fset
	nonzeroStore                fset // some store of a value not known to be zero
	unbalanced                  fset // some store that is not part of a balanced inc/dec pair
	unpairedNonzero             fset // some non-zero store without a deferred zero store in the same block
}

type fxAnalysis struct {
	prog   *ssa.Program
	pkg    *ssa.Package
	target *types.Named
	nf     int
	all    fset
	fns    []*ssa.Function
	sum    map[*ssa.Function]*fxSummary
	bySig  map[string][]*ssa.Function // func(*T)-shaped functions, for calls through function values
	// depth counter of T as identified by the C02 recogniser (depthguard.go), -1 if none: its "balanced" class is
	// decided by that recogniser's data flow (net step 0 on every return path), helpers inlined into their callers
	ctr int
	di  *depthInfo
}

// ctrNeutral: stores to the counter inside fn are accounted for by the recogniser: fn (or the function fn is a
// closure of) is balanced, or a helper that is judged as part of each of its callers
func (a *fxAnalysis) ctrNeutral(fn *ssa.Function) bool {
	r := rootFn(fn)
	return a.di != nil && (a.di.Balanced[r] || a.di.Helpers[r])
}

func (a *fxAnalysis) isTargetPtr(t types.Type) bool {
	p, ok := t.Underlying().(*types.Pointer)
	if !ok {
		return false
	}
	n, ok := p.Elem().(*types.Named)
	return ok && n.Obj() == a.target.Obj()
}

// fieldOf: v is &x.f with x of type *T
func (a *fxAnalysis) fieldOf(v ssa.Value) (int, bool) {
	fa, ok := v.(*ssa.FieldAddr)
	if !ok || !a.isTargetPtr(fa.X.Type()) {
		return 0, false
	}
	return fa.Field, true
}

func isZeroValue(v ssa.Value) bool {
	c, ok := v.(*ssa.Const)
	if !ok {
		return false
	}
	if c.Value == nil {
		return true // nil / zero value of an aggregate
	}
	switch c.Value.Kind() {
	case constant.Bool:
		return !constant.BoolVal(c.Value)
	case constant.String:
		return constant.StringVal(c.Value) == ""
	case constant.Int, constant.Float, constant.Complex:
		return constant.Sign(c.Value) == 0
	}
	return false
}

// isZeroStruct: v is the zero value of a struct type: a zero constant, or the load of a local composite literal
// none of whose fields is stored
func isZeroStruct(v ssa.Value) bool {
	if isZeroValue(v) {
		return true
	}
	u, ok := v.(*ssa.UnOp)
	if !ok || u.Op != token.MUL {
		return false
	}
	al, ok := u.X.(*ssa.Alloc)
	if !ok || al.Referrers() == nil {
		return false
	}
	for _, r := range *al.Referrers() {
		switch y := r.(type) {
		case *ssa.UnOp:
			if y.Op != token.MUL {
				return false
			}
		case *ssa.DebugRef:
		default:
			return false
		}
	}
	return true
}

// onlyLoads: every use of the address v (possibly through nested field / index addresses) is a load
func onlyLoads(v ssa.Value, depth int) bool {
	refs := v.Referrers()
	if refs == nil || depth > 6 {
		return false
	}
	for _, r := range *refs {
		switch x := r.(type) {
		case *ssa.UnOp:
			if x.Op != token.MUL {
				return false
			}
		case *ssa.FieldAddr:
			if !onlyLoads(x, depth+1) {
				return false
			}
		case *ssa.IndexAddr:
			if x.X != v || !onlyLoads(x, depth+1) {
				return false
			}
		case *ssa.DebugRef:
		default:
			return false
		}
	}
	return true
}

func (a *fxAnalysis) allFuncs() {
	seen := map[*ssa.Function]bool{}
	var add func(f *ssa.Function)
	add = func(f *ssa.Function) {
		if f == nil || seen[f] || len(f.Blocks) == 0 {
			return
		}
		seen[f] = true
		a.fns = append(a.fns, f)
		for _, an := range f.AnonFuncs {
			add(an)
		}
	}
	for _, m := range a.pkg.Members {
		if f, ok := m.(*ssa.Function); ok {
			add(f)
		}
		if t, ok := m.(*ssa.Type); ok {
			for _, ty := range []types.Type{t.Type(), types.NewPointer(t.Type())} {
				ms := a.prog.MethodSets.MethodSet(ty)
				for i := 0; i < ms.Len(); i++ {
					add(a.prog.MethodValue(ms.At(i)))
				}
			}
		}
	}
	sort.Slice(a.fns, func(i, j int) bool { return a.fns[i].String() < a.fns[j].String() })
	for _, f := range a.fns {
		// calls through a func(*T) value are resolved to the closures of the package with that signature (the option
		// constructors); unexported fields cannot be reached by closures written outside the package
		if f.Parent() != nil && f.Signature.Recv() == nil && f.Signature.Params().Len() == 1 && f.Signature.Results().Len() == 0 &&
			a.isTargetPtr(f.Signature.Params().At(0).Type()) {
			a.bySig["func(*T)"] = append(a.bySig["func(*T)"], f)
		}
	}
}

// callees of a call instruction: static callee, closure, or every func(*T) of the package for a call through such a value
func (a *fxAnalysis) callees(c *ssa.CallCommon) (fs []*ssa.Function, unknown bool) {
	if c.IsInvoke() {
		// interface method call: cannot reach the unexported fields of T except through a *T argument
		for _, arg := range c.Args {
			if a.isTargetPtr(arg.Type()) {
				return nil, true
			}
		}
		return nil, false
	}
	if sc := c.StaticCallee(); sc != nil {
		if sc.Pkg == a.pkg || sc.Parent() != nil {
			if len(sc.Blocks) > 0 {
				return []*ssa.Function{sc}, false
			}
		}
		// function of another package: can reach T's unexported fields only through exported methods on a *T argument
		for _, arg := range c.Args {
			if a.isTargetPtr(arg.Type()) {
				return nil, true
			}
		}
		return nil, false
	}
	if _, isBuiltin := c.Value.(*ssa.Builtin); isBuiltin {
		return nil, false
	}
	if sig, ok := c.Value.Type().Underlying().(*types.Signature); ok {
		if sig.Params().Len() == 1 && sig.Results().Len() == 0 && a.isTargetPtr(sig.Params().At(0).Type()) {
			return a.bySig["func(*T)"], false
		}
		for i := 0; i < sig.Params().Len(); i++ {
			if a.isTargetPtr(sig.Params().At(i).Type()) {
				return nil, true
			}
		}
	}
	return nil, false
}

// nilSide: block b ends in `if x != nil` / `if x == nil` with x of type *T: the successor index on which x is nil, or -1
func (a *fxAnalysis) nilSide(b *ssa.BasicBlock) int {
	if len(b.Instrs) == 0 {
		return -1
	}
	iff, ok := b.Instrs[len(b.Instrs)-1].(*ssa.If)
	if !ok {
		return -1
	}
	bo, ok := iff.Cond.(*ssa.BinOp)
	if !ok || (bo.Op != token.NEQ && bo.Op != token.EQL) {
		return -1
	}
	isNil := func(v ssa.Value) bool { c, ok := v.(*ssa.Const); return ok && c.Value == nil }
	var ptr ssa.Value
	if isNil(bo.Y) {
		ptr = bo.X
	} else if isNil(bo.X) {
		ptr = bo.Y
	}
	if ptr == nil || !a.isTargetPtr(ptr.Type()) {
		return -1
	}
	if bo.Op == token.NEQ {
		return 1 // false side: x == nil
	}
	return 0
}

// analyse one function with the current summaries of its callees
func (a *fxAnalysis) analyse(fn *ssa.Function) *fxSummary {
	s := &fxSummary{}
	if a.ctr >= 0 && fn.Parent() == nil && a.di.Touches[fn] && !a.di.Balanced[fn] {
		s.unbalanced |= fset(1) << uint(a.ctr) // steps the counter (possibly through helpers) without taking every step back
	}
	// deferred callees of fn, with the block that registers them
	type def struct {
		b  *ssa.BasicBlock
		fs []*ssa.Function
	}
	var defers []def
	// per block: balanced-pair and zero-pair bookkeeping
	for _, b := range fn.Blocks {
		for _, ins := range b.Instrs {
			if d, ok := ins.(*ssa.Defer); ok {
				fs, unknown := a.callees(&d.Call)
				if unknown {
					s.mayRead, s.mayWrite, s.nonzeroStore, s.unbalanced, s.unpairedNonzero = a.all, a.all, a.all, a.all, a.all
				}
				defers = append(defers, def{b, fs})
			}
		}
	}
	deferredZeroIn := func(b *ssa.BasicBlock, f int) bool {
		for _, d := range defers {
			if d.b != b {
				continue
			}
			for _, g := range d.fs {
				gs := a.sum[g]
				if gs != nil && gs.must&(1<<uint(f)) != 0 && gs.nonzeroStore&(1<<uint(f)) == 0 {
					return true
				}
			}
		}
		return false
	}
	deferredDecIn := func(b *ssa.BasicBlock, f int) bool {
		for _, d := range defers {
			if d.b != b {
				continue
			}
			for _, g := range d.fs {
				if a.isStep(g, f, token.SUB) {
					return true
				}
			}
		}
		return false
	}
	in := make([]fset, len(fn.Blocks))
	for i := range in {
		in[i] = a.all
	}
	in[0] = 0
	// greatest fixpoint of the must-analysis: start from "everything assigned" on every edge not yet computed
	out := make([]fset, len(fn.Blocks))
	for i := range out {
		out[i] = a.all
	}
	changed := true
	var ri fset
	exitDA := a.all
	sawReturn := false
	for iter := 0; changed && iter < 50; iter++ {
		changed = false
		ri = 0
		exitDA = a.all
		sawReturn = false
		for _, b := range fn.Blocks {
			da := in[b.Index]
			if b.Index != 0 {
				da = a.all
				for _, p := range b.Preds {
					o := out[p.Index]
					if ns := a.nilSide(p); ns >= 0 && len(p.Succs) == 2 && p.Succs[ns] == b && p.Succs[1-ns] != b {
						o = a.all
					}
					da &= o
				}
				if len(b.Preds) == 0 {
					da = a.all // unreachable (e.g. recover block)
				}
			}
			for _, ins := range b.Instrs {
				switch x := ins.(type) {
				case *ssa.FieldAddr:
					f, ok := a.fieldOf(x)
					if !ok {
						continue
					}
					bit := fset(1) << uint(f)
					refs := x.Referrers()
					fullStore := false
					otherUse := false
					loadUse := false
					if refs != nil {
						for _, r := range *refs {
							switch y := r.(type) {
							case *ssa.Store:
								if y.Addr == x {
									fullStore = true
								} else {
									otherUse = true // the address itself is stored somewhere
								}
							case *ssa.UnOp:
								if y.Op == token.MUL {
									loadUse = true
								} else {
									otherUse = true
								}
							case *ssa.DebugRef:
							case *ssa.FieldAddr:
								if onlyLoads(y, 0) {
									loadUse = true
								} else {
									otherUse = true
								}
							case *ssa.IndexAddr:
								if onlyLoads(y, 0) {
									loadUse = true
								} else {
									otherUse = true
								}
							default:
								otherUse = true
							}
						}
					}
					_ = fullStore
					if loadUse || otherUse {
						s.mayRead |= bit
						if da&bit == 0 {
							ri |= bit
						}
					}
					if otherUse {
						s.mayWrite |= bit
						s.nonzeroStore |= bit
						s.unbalanced |= bit
						s.unpairedNonzero |= bit
					}
				case *ssa.UnOp:
					// x := *p  (whole-struct load): reads every field
					if x.Op == token.MUL && a.isTargetPtr(x.X.Type()) {
						s.mayRead |= a.all
						ri |= a.all &^ da
					}
				case *ssa.Store:
					if a.isTargetPtr(x.Addr.Type()) {
						// *p = v  (whole-struct store): assigns every field
						s.mayWrite |= a.all
						s.unbalanced |= a.all
						if !isZeroStruct(x.Val) {
							s.nonzeroStore |= a.all
							s.unpairedNonzero |= a.all
						}
						da |= a.all
						continue
					}
					f, ok := a.fieldOf(x.Addr)
					if !ok {
						continue
					}
					bit := fset(1) << uint(f)
					s.mayWrite |= bit
					zero := isZeroValue(x.Val)
					if !zero {
						s.nonzeroStore |= bit
						if !deferredZeroIn(b, f) {
							s.unpairedNonzero |= bit
						}
					}
					if f == a.ctr {
						if !a.ctrNeutral(fn) {
							s.unbalanced |= bit
						}
					} else if !(a.isStepStore(x, f, token.ADD) && deferredDecIn(b, f)) && !(a.isStepStore(x, f, token.SUB) && a.isStep(fn, f, token.SUB)) {
						// a function (closure or named method) whose only store is the -1 step is not judged on its own:
						// deferred next to the +1 step it is the other half of the pair, called otherwise it is
						// charged to the caller (transitive merge below)
						s.unbalanced |= bit
					}
					da |= bit
				case *ssa.RunDefers:
					for _, d := range defers {
						for _, g := range d.fs {
							gs := a.sum[g]
							if gs == nil {
								continue
							}
							ri |= gs.ri &^ da
						}
					}
					for _, d := range defers {
						if d.b == b || d.b.Dominates(b) {
							for _, g := range d.fs {
								if gs := a.sum[g]; gs != nil {
									da |= gs.must
								}
							}
						}
					}
				case *ssa.Defer:
					// effects applied at RunDefers
				case ssa.CallInstruction:
					fs, unknown := a.callees(x.Common())
					if unknown {
						s.mayRead, s.mayWrite, s.nonzeroStore, s.unbalanced, s.unpairedNonzero = a.all, a.all, a.all, a.all, a.all
						ri |= a.all &^ da
						continue
					}
					if _, isGo := ins.(*ssa.Go); isGo {
						for _, g := range fs {
							if gs := a.sum[g]; gs != nil {
								ri |= gs.mayRead &^ da
							}
						}
						continue
					}
					var must fset = a.all
					if len(fs) == 0 {
						must = 0
					}
					for _, g := range fs {
						gs := a.sum[g]
						if gs == nil {
							must = 0
							continue
						}
						ri |= gs.ri &^ da
						must &= gs.must
					}
					da |= must
				case *ssa.Return:
					sawReturn = true
					exitDA &= da
				}
			}
			if out[b.Index] != da {
				out[b.Index] = da
				changed = true
			}
		}
	}
	// transitive may-sets
	for _, b := range fn.Blocks {
		for _, ins := range b.Instrs {
			ci, ok := ins.(ssa.CallInstruction)
			if !ok {
				continue
			}
			fs, _ := a.callees(ci.Common())
			for _, g := range fs {
				if gs := a.sum[g]; gs != nil && g != fn {
					s.mayRead |= gs.mayRead
					s.mayWrite |= gs.mayWrite
					s.nonzeroStore |= gs.nonzeroStore
					s.unbalanced |= gs.unbalanced
					// a step-only callee that is not the deferred half of a pair in this block
					for f := 0; f < a.nf; f++ {
						if f == a.ctr || !a.isStep(g, f, token.SUB) {
							continue
						}
						if _, isDefer := ins.(*ssa.Defer); !isDefer || !a.pairedInc(b, f) {
							s.unbalanced |= fset(1) << uint(f)
						}
					}
					if _, isDefer := ins.(*ssa.Defer); isDefer {
						// the deferred half of a pair is accounted for with the store it is paired with
						s.unpairedNonzero |= gs.unpairedNonzero
					} else {
						s.unpairedNonzero |= gs.unpairedNonzero
					}
				}
			}
		}
	}
	s.ri = ri
	if sawReturn {
		s.must = exitDA
	} else {
		s.must = 0
	}
	return s
}

// isStepStore: st is  x.f = x.f op 1
func (a *fxAnalysis) isStepStore(st *ssa.Store, f int, op token.Token) bool {
	bo, ok := st.Val.(*ssa.BinOp)
	if !ok || bo.Op != op {
		return false
	}
	c, ok := bo.Y.(*ssa.Const)
	if !ok || c.Value == nil || c.Value.Kind() != constant.Int {
		return false
	}
	u, ok := bo.X.(*ssa.UnOp)
	if !ok || u.Op != token.MUL {
		return false
	}
	g, ok := a.fieldOf(u.X)
	return ok && g == f
}

// pairedInc: block b contains the store f = f + 1
func (a *fxAnalysis) pairedInc(b *ssa.BasicBlock, f int) bool {
	for _, ins := range b.Instrs {
		if st, ok := ins.(*ssa.Store); ok {
			if g, ok := a.fieldOf(st.Addr); ok && g == f && a.isStepStore(st, f, token.ADD) {
				return true
			}
		}
	}
	return false
}

// isStep: g is a function (closure or named method) whose only store to a field of T is  f = f op 1
func (a *fxAnalysis) isStep(g *ssa.Function, f int, op token.Token) bool {
	found := false
	for _, b := range g.Blocks {
		for _, ins := range b.Instrs {
			st, ok := ins.(*ssa.Store)
			if !ok {
				continue
			}
			h, ok := a.fieldOf(st.Addr)
			if !ok {
				continue
			}
			if h != f || !a.isStepStore(st, f, op) {
				return false
			}
			found = true
		}
	}
	return found
}

func (a *fxAnalysis) solve() {
	for _, f := range a.fns {
		a.sum[f] = &fxSummary{}
	}
	for iter := 0; iter < 40; iter++ {
		changed := false
		for _, f := range a.fns {
			n := a.analyse(f)
			if *n != *a.sum[f] {
				changed = true
				a.sum[f] = n
			}
		}
		if !changed {
			break
		}
	}
}

func fieldFx(prog *ssa.Program, p *packages.Package, typeName string, di *depthInfo) *FxType {
	obj, ok := p.Types.Scope().Lookup(typeName).(*types.TypeName)
	if !ok {
		return nil
	}
	named, ok := obj.Type().(*types.Named)
	if !ok {
		return nil
	}
	st, ok := named.Underlying().(*types.Struct)
	if !ok || st.NumFields() > 60 {
		return nil
	}
	a := &fxAnalysis{prog: prog, pkg: prog.Package(p.Types), target: named, nf: st.NumFields(), sum: map[*ssa.Function]*fxSummary{}, bySig: map[string][]*ssa.Function{}}
	a.all = fset(1)<<uint(a.nf) - 1
	a.ctr = -1
	if di != nil && di.Owner != nil && di.Owner.Obj() == named.Obj() {
		a.ctr, a.di = di.Index, di
	}
	a.allFuncs()
	a.solve()
	res := &FxType{Pkg: p.PkgPath, Type: typeName}
	qual := func(q *types.Package) string { return q.Name() }
	for i := 0; i < st.NumFields(); i++ {
		res.Fields = append(res.Fields, st.Field(i).Name())
		res.FieldTypes = append(res.FieldTypes, types.TypeString(st.Field(i).Type(), qual))
	}
	if a.ctr >= 0 {
		res.Counter = st.Field(a.ctr).Name()
	}
	res.Roles = fieldRoles(a, st, typeName)
	for _, fn := range a.fns {
		if fn.Parent() != nil || fn.Object() == nil || !fn.Object().Exported() {
			continue
		}
		file := filepath.Base(prog.Fset.Position(fn.Pos()).Filename)
		if strings.HasPrefix(file, "verif_hooks") {
			continue
		}
		touches := false
		if r := fn.Signature.Recv(); r != nil {
			touches = a.isTargetPtr(r.Type())
		} else {
			for i := 0; i < fn.Signature.Params().Len(); i++ {
				if a.isTargetPtr(fn.Signature.Params().At(i).Type()) {
					touches = true
				}
			}
		}
		if !touches {
			continue
		}
		s := a.sum[fn]
		row := FxRow{Method: fn.Name()}
		for i := 0; i < a.nf; i++ {
			bit := fset(1) << uint(i)
			row.Reads = append(row.Reads, s.ri&bit != 0)
			cls := "may"
			switch {
			case s.mayWrite&bit == 0:
				cls = "none"
			case s.unbalanced&bit == 0:
				cls = "balanced"
			case s.must&bit != 0:
				cls = "must"
			case s.unpairedNonzero&bit == 0:
				cls = "zero_or_keep"
			}
			row.Class = append(row.Class, cls)
			row.AllZero = append(row.AllZero, s.nonzeroStore&bit == 0)
		}
		res.Rows = append(res.Rows, row)
	}
	sort.Slice(res.Rows, func(i, j int) bool { return res.Rows[i].Method < res.Rows[j].Method })
	return res
}
