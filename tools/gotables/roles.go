package main

// roles: which field of parser.Parser / tokenizer.Tokenizer plays which role of the C08 model (Model/Reuse.v, pfield /
// tfield).  The model's columns are named after roles; the current name of the field that plays a role is found by
//
//	depth        the counter identified by the C02 recogniser (depthguard.go): stepped +1, -1 in a deferred callee, compared
//	             with a constant
//	tokens ...   the type of the field ([]token.Token, token.Token, context.Context, error, []TokenPosition, bool, string, int);
//	currentPos   among several int fields: the one used as an index into the field that plays "tokens"
//
// When the type does not single out one field, the field with the role's own name is taken (the pinned tree's names);
// a role no field plays is left out (Inst_C08 then fails: the model has a column the code has not).  Fields that play no
// role are "extra" fields: Inst_C08 admits them when their regenerated column satisfies the generic footprint condition.
//
// Tokenizer (tokenizerRoleMap): input, lineStarts, line, keywords, dialect, logger, configured, Comments by type ([]byte,
// []int, int, *keywords.Keywords, keywords.SQLDialect, *slog.Logger, bool, []models.Comment);
//	pos        the field through which the field playing "input" is indexed (a component of it is the index): the cursor
//	lineStart  the other field of the cursor's type
//	loc        the field the position conversion writes: the methods of *Tokenizer that return a models.Location store
//	           to no other field (the resume point of the conversion); failing that, the only remaining field whose type
//	           is a struct declared in the package
import (
	"go/token"
	"go/types"

	"golang.org/x/tools/go/ssa"
)

type roleSpec struct {
	role string
	typ  string
}

var parserRoles = []roleSpec{
	{"tokens", "[]token.Token"},
	{"currentToken", "token.Token"},
	{"ctx", "context.Context"},
	{"cancelErr", "error"},
	{"positions", "[]parser.TokenPosition"},
	{"strict", "bool"},
	{"dialect", "string"},
	{"currentPos", "int"},
}

var tokenizerRoles = []roleSpec{
	{"input", "[]byte"},
	{"lineStarts", "[]int"},
	{"line", "int"},
	{"keywords", "*keywords.Keywords"},
	{"dialect", "keywords.SQLDialect"},
	{"logger", "*slog.Logger"},
	{"configured", "bool"},
	{"Comments", "[]models.Comment"},
}

// byType: assign the roles of specs that the field types decide (a role whose type several free fields have goes to
// the field with the role's own name, the pinned tree's)
func byType(st *types.Struct, specs []roleSpec, roles map[string]string, taken map[int]bool, refine func(role string, cands []int) []int) {
	qual := func(q *types.Package) string { return q.Name() }
	for _, rs := range specs {
		var cands []int
		for i := 0; i < st.NumFields(); i++ {
			if !taken[i] && types.TypeString(st.Field(i).Type(), qual) == rs.typ {
				cands = append(cands, i)
			}
		}
		if refine != nil && len(cands) > 1 {
			cands = refine(rs.role, cands)
		}
		pick := -1
		if len(cands) == 1 {
			pick = cands[0]
		} else {
			for i := 0; i < st.NumFields(); i++ { // not decided by the type: the pinned name
				if !taken[i] && st.Field(i).Name() == rs.role {
					pick = i
				}
			}
		}
		if pick >= 0 {
			roles[rs.role] = st.Field(pick).Name()
			taken[pick] = true
		}
	}
}

func tokenizerRoleMap(a *fxAnalysis, st *types.Struct) map[string]string {
	roles := map[string]string{}
	taken := map[int]bool{}
	byType(st, tokenizerRoles, roles, taken, nil)
	assign := func(role string, cands []int) {
		pick := -1
		if len(cands) == 1 {
			pick = cands[0]
		} else {
			for i := 0; i < st.NumFields(); i++ {
				if !taken[i] && st.Field(i).Name() == role {
					pick = i
				}
			}
		}
		if pick >= 0 {
			roles[role] = st.Field(pick).Name()
			taken[pick] = true
		}
	}
	free := func(pred func(i int) bool) []int {
		var out []int
		for i := 0; i < st.NumFields(); i++ {
			if !taken[i] && pred(i) {
				out = append(out, i)
			}
		}
		return out
	}
	// pos: the cursor
	in := -1
	if n, ok := roles["input"]; ok {
		in = fieldIndex(st, n)
	}
	assign("pos", free(func(i int) bool { return a.indexes(i, in) }))
	// lineStart: the other field of the cursor's type
	if n, ok := roles["pos"]; ok {
		pt := st.Field(fieldIndex(st, n)).Type()
		assign("lineStart", free(func(i int) bool { return types.Identical(st.Field(i).Type(), pt) }))
	} else {
		assign("lineStart", nil)
	}
	// loc: written by the position conversion
	var w fset
	for _, fn := range a.fns {
		if r := fn.Signature.Recv(); r == nil || !a.isTargetPtr(r.Type()) || fn.Signature.Results().Len() != 1 {
			continue
		}
		if n, ok := fn.Signature.Results().At(0).Type().(*types.Named); ok && n.Obj().Name() == "Location" && n.Obj().Pkg() != nil && n.Obj().Pkg().Name() == "models" {
			if s := a.sum[fn]; s != nil {
				w |= s.mayWrite
			}
		}
	}
	cands := free(func(i int) bool { return w&(fset(1)<<uint(i)) != 0 })
	if len(cands) != 1 {
		cands = free(func(i int) bool {
			n, ok := st.Field(i).Type().(*types.Named)
			if !ok || n.Obj().Pkg() != a.pkg.Pkg {
				return false
			}
			_, isStruct := n.Underlying().(*types.Struct)
			return isStruct
		})
	}
	assign("loc", cands)
	return roles
}

func fieldRoles(a *fxAnalysis, st *types.Struct, typeName string) map[string]string {
	roles := map[string]string{}
	if typeName == "Tokenizer" {
		return tokenizerRoleMap(a, st)
	}
	if typeName != "Parser" {
		for i := 0; i < st.NumFields(); i++ {
			roles[st.Field(i).Name()] = st.Field(i).Name()
		}
		return roles
	}
	qual := func(q *types.Package) string { return q.Name() }
	taken := map[int]bool{}
	if a.ctr >= 0 {
		roles["depth"] = st.Field(a.ctr).Name()
		taken[a.ctr] = true
	} else {
		for i := 0; i < st.NumFields(); i++ {
			if st.Field(i).Name() == "depth" {
				roles["depth"] = "depth"
				taken[i] = true
			}
		}
	}
	for _, rs := range parserRoles {
		var cands []int
		for i := 0; i < st.NumFields(); i++ {
			if !taken[i] && types.TypeString(st.Field(i).Type(), qual) == rs.typ {
				cands = append(cands, i)
			}
		}
		if rs.role == "currentPos" && len(cands) > 1 {
			if tk, ok := roles["tokens"]; ok {
				var idx []int
				for _, c := range cands {
					if a.indexes(c, fieldIndex(st, tk)) {
						idx = append(idx, c)
					}
				}
				if len(idx) > 0 {
					cands = idx
				}
			}
		}
		pick := -1
		if len(cands) == 1 {
			pick = cands[0]
		} else {
			for i := 0; i < st.NumFields(); i++ { // not decided by the type: the pinned name
				if !taken[i] && st.Field(i).Name() == rs.role {
					pick = i
				}
			}
		}
		if pick >= 0 {
			roles[rs.role] = st.Field(pick).Name()
			taken[pick] = true
		}
	}
	return roles
}

func fieldIndex(st *types.Struct, name string) int {
	for i := 0; i < st.NumFields(); i++ {
		if st.Field(i).Name() == name {
			return i
		}
	}
	return -1
}

// indexes: somewhere in the package a value derived from a load of field g is the index of an element access into
// a load of field h
func (a *fxAnalysis) indexes(g, h int) bool {
	if h < 0 {
		return false
	}
	var from func(v ssa.Value, f int, d int) bool
	from = func(v ssa.Value, f int, d int) bool {
		if d > 4 {
			return false
		}
		switch x := v.(type) {
		case *ssa.UnOp:
			if x.Op == token.MUL {
				// a load of the field, or of a component of it (x.f.g)
				addr := x.X
				for i := 0; i < 4; i++ {
					if k, ok := a.fieldOf(addr); ok {
						return k == f
					}
					fa, ok := addr.(*ssa.FieldAddr)
					if !ok {
						return false
					}
					addr = fa.X
				}
				return false
			}
		case *ssa.Field:
			return from(x.X, f, d+1)
		case *ssa.BinOp:
			return from(x.X, f, d+1) || from(x.Y, f, d+1)
		case *ssa.Convert:
			return from(x.X, f, d+1)
		case *ssa.ChangeType:
			return from(x.X, f, d+1)
		}
		return false
	}
	for _, fn := range a.fns {
		for _, b := range fn.Blocks {
			for _, ins := range b.Instrs {
				switch x := ins.(type) {
				case *ssa.IndexAddr:
					if from(x.X, h, 0) && from(x.Index, g, 0) {
						return true
					}
				case *ssa.Index:
					if from(x.X, h, 0) && from(x.Index, g, 0) {
						return true
					}
				}
			}
		}
	}
	return false
}
