package main

// roles: which field of parser.Parser plays which role of the C08 model (Model/Reuse.v, pfield).  The model's columns
// are named after roles; the current name of the field that plays a role is found by
//
//	depth        the counter identified by the C02 recogniser (depthguard.go): stepped +1, -1 in a deferred callee, compared
//	             with a constant
//	tokens ...   the type of the field ([]token.Token, token.Token, context.Context, error, []TokenPosition, bool, string, int);
//	currentPos   among several int fields: the one used as an index into the field that plays "tokens"
//
// When the type does not single out one field, the field with the role's own name is taken (the pinned tree's names);
// a role no field plays is left out (Inst_C08 then fails: the model has a column the code has not).  Fields that play no
// role are "extra" fields: Inst_C08 admits them when their regenerated column satisfies the generic footprint condition.
// Tokenizer: roles are the field names themselves.
import (
	"go/token"
	"go/types"

	"golang.org/x/tools/go/ssa"
)

type roleSpec struct {
	role string
	typ  string
}

var parserRoles = []roleSpec{
	{"tokens", "[]token.Token"},
	{"currentToken", "token.Token"},
	{"ctx", "context.Context"},
	{"cancelErr", "error"},
	{"positions", "[]parser.TokenPosition"},
	{"strict", "bool"},
	{"dialect", "string"},
	{"currentPos", "int"},
}

func fieldRoles(a *fxAnalysis, st *types.Struct, typeName string) map[string]string {
	roles := map[string]string{}
	if typeName != "Parser" {
		for i := 0; i < st.NumFields(); i++ {
			roles[st.Field(i).Name()] = st.Field(i).Name()
		}
		return roles
	}
	qual := func(q *types.Package) string { return q.Name() }
	taken := map[int]bool{}
	if a.ctr >= 0 {
		roles["depth"] = st.Field(a.ctr).Name()
		taken[a.ctr] = true
	} else {
		for i := 0; i < st.NumFields(); i++ {
			if st.Field(i).Name() == "depth" {
				roles["depth"] = "depth"
				taken[i] = true
			}
		}
	}
	for _, rs := range parserRoles {
		var cands []int
		for i := 0; i < st.NumFields(); i++ {
			if !taken[i] && types.TypeString(st.Field(i).Type(), qual) == rs.typ {
				cands = append(cands, i)
			}
		}
		if rs.role == "currentPos" && len(cands) > 1 {
			if tk, ok := roles["tokens"]; ok {
				var idx []int
				for _, c := range cands {
					if a.indexes(c, fieldIndex(st, tk)) {
						idx = append(idx, c)
					}
				}
				if len(idx) > 0 {
					cands = idx
				}
			}
		}
		pick := -1
		if len(cands) == 1 {
			pick = cands[0]
		} else {
			for i := 0; i < st.NumFields(); i++ { // not decided by the type: the pinned name
				if !taken[i] && st.Field(i).Name() == rs.role {
					pick = i
				}
			}
		}
		if pick >= 0 {
			roles[rs.role] = st.Field(pick).Name()
			taken[pick] = true
		}
	}
	return roles
}

func fieldIndex(st *types.Struct, name string) int {
	for i := 0; i < st.NumFields(); i++ {
		if st.Field(i).Name() == name {
			return i
		}
	}
	return -1
}

// indexes: somewhere in the package a value derived from a load of field g is the index of an element access into
// a load of field h
func (a *fxAnalysis) indexes(g, h int) bool {
	if h < 0 {
		return false
	}
	var from func(v ssa.Value, f int, d int) bool
	from = func(v ssa.Value, f int, d int) bool {
		if d > 4 {
			return false
		}
		switch x := v.(type) {
		case *ssa.UnOp:
			if x.Op == token.MUL {
				k, ok := a.fieldOf(x.X)
				return ok && k == f
			}
		case *ssa.BinOp:
			return from(x.X, f, d+1) || from(x.Y, f, d+1)
		case *ssa.Convert:
			return from(x.X, f, d+1)
		case *ssa.ChangeType:
			return from(x.X, f, d+1)
		}
		return false
	}
	for _, fn := range a.fns {
		for _, b := range fn.Blocks {
			for _, ins := range b.Instrs {
				switch x := ins.(type) {
				case *ssa.IndexAddr:
					if from(x.X, h, 0) && from(x.Index, g, 0) {
						return true
					}
				case *ssa.Index:
					if from(x.X, h, 0) && from(x.Index, g, 0) {
						return true
					}
				}
			}
		}
	}
	return false
}
