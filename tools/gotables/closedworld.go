// closedworld.go: interface method calls whose possible callees can be enumerated.
//
//	type statementKind interface{ parse(p *Parser) (ast.Statement, error) }
//	... kind.parse(p)
//
// An UNEXPORTED method name belongs to the package that declares it: only a type declared in that package can
// declare a method of that name, and a type of another package can only come by one through embedding (its promoted
// method is a synthetic wrapper around a method - or another interface method call - of this package).  So whatever
// dynamic type the interface value has, the code that runs is one of the methods of that name and signature
// declared on the named types of the package: the invoke is a call with several possible callees, all known.
// (Class-hierarchy resolution, restricted to the case where the hierarchy is closed by the language itself.)
//
// An exported method - even of an unexported interface type - can be implemented by any type of any package and
// reach the call through an empty interface or another interface with the same method; such calls stay unknown.
package main

import (
	"go/types"
	"sort"

	"golang.org/x/tools/go/ssa"
)

type cwKey struct {
	pkg  *types.Package
	name string
}

type closedWorld struct {
	prog   *ssa.Program
	byName map[cwKey][]*ssa.Function // declared methods of the package's named types, by unexported name
	open   map[cwKey]bool            // a generic type of the package declares the name: not enumerated
	sites  map[*ssa.Function][]ssa.CallInstruction
	fns    []*ssa.Function
}

var theClosedWorld *closedWorld

// closedWorldOf: one index per program
func closedWorldOf(prog *ssa.Program) *closedWorld {
	if theClosedWorld != nil && theClosedWorld.prog == prog {
		return theClosedWorld
	}
	w := &closedWorld{prog: prog, byName: map[cwKey][]*ssa.Function{}, open: map[cwKey]bool{}}
	for _, p := range prog.AllPackages() {
		if p.Pkg == nil || !inModulePath(p.Pkg.Path()) {
			continue
		}
		var names []string
		for n := range p.Members {
			names = append(names, n)
		}
		sort.Strings(names)
		for _, n := range names {
			t, ok := p.Members[n].(*ssa.Type)
			if !ok {
				continue
			}
			nt, ok := t.Type().(*types.Named)
			if !ok || types.IsInterface(nt) {
				continue
			}
			for i := 0; i < nt.NumMethods(); i++ {
				m := nt.Method(i)
				if m.Exported() {
					continue
				}
				k := cwKey{p.Pkg, m.Name()}
				if nt.TypeParams().Len() > 0 {
					w.open[k] = true
					continue
				}
				if f := prog.FuncValue(m); f != nil {
					w.byName[k] = append(w.byName[k], f)
				} else {
					w.open[k] = true
				}
			}
		}
	}
	theClosedWorld = w
	return w
}

func inModulePath(p string) bool {
	return p == mod || (len(p) > len(mod) && p[:len(mod)+1] == mod+"/")
}

// sameButRecv: the signatures agree on parameters, results and variadicity (the receiver aside)
func sameButRecv(a, b *types.Signature) bool {
	return a.Variadic() == b.Variadic() && types.Identical(a.Params(), b.Params()) && types.Identical(a.Results(), b.Results())
}

// targets: the methods an interface method call can run, when the world is closed (ok); nil, false otherwise
func (w *closedWorld) targets(c *ssa.CallCommon) ([]*ssa.Function, bool) {
	if c == nil || !c.IsInvoke() || c.Method == nil || c.Method.Exported() || c.Method.Pkg() == nil {
		return nil, false
	}
	if !inModulePath(c.Method.Pkg().Path()) {
		return nil, false
	}
	k := cwKey{c.Method.Pkg(), c.Method.Name()}
	if w.open[k] {
		return nil, false
	}
	sig, _ := c.Method.Type().(*types.Signature)
	if sig == nil {
		return nil, false
	}
	var out []*ssa.Function
	for _, f := range w.byName[k] {
		if len(f.Blocks) == 0 {
			return nil, false // a method without a body (assembly / linkname): not followed
		}
		if sameButRecv(f.Signature, sig) {
			out = append(out, f)
		}
	}
	if len(out) == 0 {
		return nil, false // no implementation at all: only a nil interface value, or something this index does not see
	}
	return out, true
}

// invokeSites: the interface method calls of the module that can run fn (closed world only)
func (w *closedWorld) invokeSites(all []*ssa.Function, fn *ssa.Function) []ssa.CallInstruction {
	if w.sites == nil {
		w.sites = map[*ssa.Function][]ssa.CallInstruction{}
		for _, f := range all {
			for _, b := range f.Blocks {
				for _, ins := range b.Instrs {
					ci, ok := ins.(ssa.CallInstruction)
					if !ok || !ci.Common().IsInvoke() {
						continue
					}
					if ts, ok := w.targets(ci.Common()); ok {
						for _, t := range ts {
							w.sites[t] = append(w.sites[t], ci)
						}
					}
				}
			}
		}
	}
	return w.sites[fn]
}

// invokeArg: the argument an interface method call passes for parameter idx of the method fn (fn.Params counts the
// receiver first; the receiver itself is the interface value, not an argument)
func invokeArg(c ssa.CallInstruction, fn *ssa.Function, idx int) (ssa.Value, bool) {
	args := c.Common().Args
	if fn.Signature.Recv() == nil || idx < 1 || idx-1 >= len(args) || len(fn.Params) != len(args)+1 {
		return nil, false
	}
	return args[idx-1], true
}

// ---- error-site table (errsites.go) ---------------------------------------------------------------------------

// invokeTargets: the methods an interface method call can run, when they can be enumerated and every one of them is
// a function whose error results the table follows (as for calls through function values: dynTargets)
func (s *efState) invokeTargets(c *ssa.CallCommon) ([]*ssa.Function, bool) {
	ts, ok := closedWorldOf(s.prog).targets(c)
	if !ok {
		return nil, false
	}
	for _, t := range ts {
		if !inModule(t) || len(t.Blocks) == 0 || t.Pkg == nil || t.Pkg == s.errPkg {
			return nil, false
		}
	}
	return ts, true
}

// invokeInScope: the call is an enumerable interface method call that can run a method of the scope packages
func (s *efState) invokeInScope(c *ssa.CallCommon) bool {
	ts, ok := s.invokeTargets(c)
	if !ok {
		return false
	}
	for _, t := range ts {
		if _, in := s.scope[t.Pkg]; in {
			return true
		}
	}
	return false
}

// ---- field-effect table (fieldfx.go) ----------------------------------------------------------------------------

// invokeAnalysed: the methods an interface method call can run, all of them analysed functions of the package
func (a *fxAnalysis) invokeAnalysed(c *ssa.CallCommon) ([]*ssa.Function, bool) {
	ts, ok := closedWorldOf(a.prog).targets(c)
	if !ok {
		return nil, false
	}
	for _, t := range ts {
		if _, analysed := a.sum[t]; !analysed {
			return nil, false
		}
	}
	return ts, true
}
