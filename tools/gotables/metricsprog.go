// metricsprog.go: translation of the Record* functions of the metrics packages (pkg/metrics,
// pkg/sql/monitor) into the section DSL of coq/theories/Model/Metrics.v (go/ast + go/types).
//
// A function body becomes a list of sections; every section touches one field of the package's
// metrics struct:  add / store (one sync/atomic call, or one plain statement inside a Lock..Unlock
// region of the struct's mutex), or rmw (a run of statements around atomic Load / Store / Add /
// CompareAndSwap of one field, compiled to Load/Store/Add/Cas/JmpIf/Jmp/Ret).  Anything else is
// emitted as kind "unknown" (never accepted by the instance check).  Locals are numbered in order of
// first definition, comparisons are normalised (only <, ==, not/and/or with negations pushed inwards),
// so renaming locals or writing `a > b` as `b < a` does not change the output.
//
// Nothing is looked up by the name of an unexported identifier: the metrics state of a package is found by ROLE
// (findMetricsVars: the package-level variables of struct type whose fields the exported Record* functions — and
// the same-package functions they call — access with sync/atomic / under the struct's mutex); calls of same-package
// functions that touch the state are INLINED (up to inlineDepth levels; pointer parameters are bound to the field
// whose address they receive, *Metrics parameters / receivers to the variable); `&&` / `||` that touch the state
// are compiled to control flow (short-circuit evaluation); locals assigned more than once
// (a `done` flag) live in registers (`set`).
package main

import (
	"fmt"
	"go/ast"
	"go/constant"
	"go/token"
	"go/types"
	"sort"
	"strings"

	"golang.org/x/tools/go/packages"
	"golang.org/x/tools/go/ssa"
)

type J = map[string]interface{}

type MSection struct {
	Cond   interface{} `json:"cond"` // nil = unconditional
	Loc    string      `json:"loc"`
	Kind   string      `json:"kind"` // add | store | rmw | unknown
	Expr   interface{} `json:"expr,omitempty"`
	Instrs []J         `json:"instrs,omitempty"`
	Plain  bool        `json:"plain,omitempty"`  // contains a non-atomic access outside a lock region
	Locked string      `json:"locked,omitempty"` // mutex field held around the statement
	Text   string      `json:"text,omitempty"`
	Pos    string      `json:"pos"`
}

type MProg struct {
	Pkg      string     `json:"pkg"`
	Func     string     `json:"func"`
	Struct   string     `json:"struct"`
	Vars     []string   `json:"vars"` // the package-level variable(s) holding the metrics state, as the source names them
	Params   []string   `json:"params"`
	PKinds   []string   `json:"param_kinds"` // error | bool | int (what the harness has to pass), by type
	Opaque   []string   `json:"opaque"`      // values modelled as extra arguments (clock reads, err.Error() ...)
	Guard    string     `json:"guard"`       // the recognised "disabled => return" prologue, "" if absent
	Sections []MSection `json:"sections"`
}

const inlineDepth = 3

type mtr struct {
	p       *packages.Package
	gvars   map[types.Object]string        // the package-level metrics variable(s) -> prefix of their location names
	alias   map[types.Object]types.Object  // parameter / receiver of an inlined callee -> the metrics variable it is
	ptr     map[types.Object]string        // pointer parameter of an inlined callee -> the field whose address it holds
	funcs   map[types.Object]*ast.FuncDecl // functions and methods of the package with a body
	touchM  map[*ast.FuncDecl]int          // 0 unknown, 1 in progress / no, 2 yes
	stack   []*ast.FuncDecl                // inlined callees being translated
	fnarg   map[types.Object]*ast.FuncDecl // func-typed parameter of an inlined callee -> the function (literal) it was given
	lits    map[*ast.FuncLit]*ast.FuncDecl // function literals as (anonymous) declarations
	params  map[types.Object]int
	nparams int
	opaque  []string
	env     map[types.Object]interface{} // pure locals -> expr
	regs    map[types.Object]int         // rmw locals -> register
	nregs   int
	multi   map[types.Object]bool      // locals of the package assigned other than by their definition, or whose address is taken (lazily)
	unlockF map[types.Object][2]string // local func value that is the bound Unlock / RUnlock of a mutex field -> (method, field)
}

// findMetricsVars: the metrics state of a package, by role: package-level variables declared in the package, of
// struct (or pointer to struct) type, a field of which is the operand of a sync/atomic function / a sync/atomic
// typed field / a mutex field used in an exported Record* function or in a same-package function reachable from
// one (inlineDepth levels).  Sorted by name.
func findMetricsVars(p *packages.Package, funcs map[types.Object]*ast.FuncDecl) []types.Object {
	score := map[types.Object]int{}
	var visit func(fd *ast.FuncDecl, depth int, seen map[*ast.FuncDecl]bool)
	visit = func(fd *ast.FuncDecl, depth int, seen map[*ast.FuncDecl]bool) {
		if seen[fd] || depth > inlineDepth {
			return
		}
		seen[fd] = true
		ast.Inspect(fd.Body, func(n ast.Node) bool {
			call, ok := n.(*ast.CallExpr)
			if !ok {
				return true
			}
			var fobj types.Object
			switch f := ast.Unparen(call.Fun).(type) {
			case *ast.Ident:
				fobj = p.TypesInfo.Uses[f]
			case *ast.SelectorExpr:
				fobj = p.TypesInfo.Uses[f.Sel]
			}
			fn, _ := fobj.(*types.Func)
			if fn == nil || fn.Pkg() == nil {
				return true
			}
			if callee := funcs[fn]; callee != nil {
				visit(callee, depth+1, seen)
			}
			if pp := fn.Pkg().Path(); pp != "sync/atomic" && pp != "sync" {
				return true
			}
			// operands: first argument (&X.F) of a function, receiver (X.F) of a method
			var ops []ast.Expr
			if sel, ok := ast.Unparen(call.Fun).(*ast.SelectorExpr); ok && fn.Type().(*types.Signature).Recv() != nil {
				ops = append(ops, sel.X)
			} else if len(call.Args) > 0 {
				ops = append(ops, call.Args[0])
			}
			for _, e := range ops {
				e = ast.Unparen(e)
				if u, ok := e.(*ast.UnaryExpr); ok && u.Op == token.AND {
					e = ast.Unparen(u.X)
				}
				sel, ok := e.(*ast.SelectorExpr)
				if !ok {
					continue
				}
				id, ok := ast.Unparen(sel.X).(*ast.Ident)
				if !ok {
					continue
				}
				v, _ := p.TypesInfo.Uses[id].(*types.Var)
				if v == nil || v.Pkg() != p.Types || v.Parent() != p.Types.Scope() {
					continue
				}
				if _, isStruct := deref(v.Type()).Underlying().(*types.Struct); isStruct {
					score[v]++
				}
			}
			return true
		})
	}
	for _, f := range p.Syntax {
		if strings.HasSuffix(p.Fset.Position(f.Pos()).Filename, "_test.go") {
			continue
		}
		for _, d := range f.Decls {
			if fd, ok := d.(*ast.FuncDecl); ok && isRecordFunc(fd) {
				visit(fd, 0, map[*ast.FuncDecl]bool{})
			}
		}
	}
	var vars []types.Object
	for v := range score {
		vars = append(vars, v)
	}
	sort.Slice(vars, func(i, j int) bool { return vars[i].Name() < vars[j].Name() })
	return vars
}

// isRecordFunc: the recording entry points of the public API: exported package-level functions named Record*
func isRecordFunc(fd *ast.FuncDecl) bool {
	return fd.Recv == nil && fd.Body != nil && strings.HasPrefix(fd.Name.Name, "Record")
}

func packageFuncs(p *packages.Package) map[types.Object]*ast.FuncDecl {
	funcs := map[types.Object]*ast.FuncDecl{}
	for _, f := range p.Syntax {
		if strings.HasSuffix(p.Fset.Position(f.Pos()).Filename, "_test.go") {
			continue
		}
		for _, d := range f.Decls {
			if fd, ok := d.(*ast.FuncDecl); ok && fd.Body != nil {
				if o := p.TypesInfo.Defs[fd.Name]; o != nil {
					funcs[o] = fd
				}
			}
		}
	}
	return funcs
}

func gvarPrefixes(vars []types.Object) map[types.Object]string {
	m := map[types.Object]string{}
	for _, v := range vars {
		if len(vars) == 1 {
			m[v] = ""
		} else {
			m[v] = v.Name() + "."
		}
	}
	return m
}

func metricsProgs(byPath map[string]*packages.Package, out *Out) {
	out.MetricsFields = map[string][]string{}
	out.MetricsVars = map[string][]string{}
	out.MetricsPublic = map[string]map[string]string{}
	for _, short := range []string{"pkg/metrics", "pkg/sql/monitor"} {
		p := byPath[mod+"/"+short]
		if p == nil {
			out.MetricsNotes = append(out.MetricsNotes, short+": package not found")
			continue
		}
		funcs := packageFuncs(p)
		vars := findMetricsVars(p, funcs)
		if len(vars) == 0 {
			out.MetricsNotes = append(out.MetricsNotes, short+": no package-level struct variable is updated with sync/atomic by an exported Record* function: the metrics state was not found")
			continue
		}
		gv := gvarPrefixes(vars)
		out.MetricsVars[short] = []string{}
		for _, v := range vars {
			out.MetricsVars[short] = append(out.MetricsVars[short], v.Name())
			// field lists of the metrics structs (location numbering)
			if st, ok := deref(v.Type()).Underlying().(*types.Struct); ok {
				for i := 0; i < st.NumFields(); i++ {
					out.MetricsFields[short] = append(out.MetricsFields[short], gv[v]+st.Field(i).Name())
				}
			}
		}
		for _, f := range p.Syntax {
			if strings.HasSuffix(p.Fset.Position(f.Pos()).Filename, "_test.go") {
				continue
			}
			for _, d := range f.Decls {
				fd, ok := d.(*ast.FuncDecl)
				if !ok || !isRecordFunc(fd) {
					continue
				}
				out.MetricsProgs = append(out.MetricsProgs, translateRecord(p, short, vars, funcs, fd))
			}
		}
		out.MetricsPublic[short] = publicNames(p, vars, funcs)
	}
	sort.Slice(out.MetricsProgs, func(i, j int) bool {
		a, b := out.MetricsProgs[i], out.MetricsProgs[j]
		if a.Pkg != b.Pkg {
			return a.Pkg < b.Pkg
		}
		return a.Func < b.Func
	})
}

// recordCallers: every call site (outside the metrics package and outside tests) of the Record* function that records a
// query size, with whether the size argument IS a length (hypothesis of min_exact: sizes are >= 0, never the -1
// sentinel; and the totals are about the true sizes).  Decided on go/ssa by following the value back: the result of
// the builtin len, a non-negative constant, a conversion / phi / local variable of such values, or a parameter of an
// unexported function all of whose (static) callers pass such a value.  Arithmetic on a length is not a length.
func recordCallers(prog *ssa.Program, pkgs []*packages.Package, out *Out) {
	var fns []*ssa.Function
	var walk func(f *ssa.Function)
	seenFn := map[*ssa.Function]bool{}
	walk = func(f *ssa.Function) {
		if f == nil || seenFn[f] {
			return
		}
		seenFn[f] = true
		fns = append(fns, f)
		for _, a := range f.AnonFuncs {
			walk(a)
		}
	}
	for _, p := range pkgs {
		if !isLib(p.PkgPath) && !strings.HasPrefix(p.PkgPath, mod+"/cmd/") {
			continue
		}
		sp := prog.Package(p.Types)
		if sp == nil {
			continue
		}
		for _, m := range sp.Members {
			switch x := m.(type) {
			case *ssa.Function:
				walk(x)
			case *ssa.Type:
				for _, T := range []types.Type{x.Type(), types.NewPointer(x.Type())} {
					ms := prog.MethodSets.MethodSet(T)
					for i := 0; i < ms.Len(); i++ {
						if f := prog.MethodValue(ms.At(i)); f != nil && f.Pkg == sp {
							walk(f)
						}
					}
				}
			}
		}
	}
	// static call sites of every function, and the functions used as values (unknown callers)
	sites := map[*ssa.Function][]ssa.CallInstruction{}
	asValue := map[*ssa.Function]bool{}
	for _, f := range fns {
		for _, b := range f.Blocks {
			for _, ins := range b.Instrs {
				var callee ssa.Value
				if ci, ok := ins.(ssa.CallInstruction); ok {
					callee = ci.Common().Value
					if sc := ci.Common().StaticCallee(); sc != nil {
						sites[sc] = append(sites[sc], ci)
					}
				}
				for _, op := range ins.Operands(nil) {
					if op != nil && *op != nil && *op != callee {
						if fn := funcOf(*op); fn != nil {
							if _, isMC := ins.(*ssa.MakeClosure); !isMC {
								asValue[fn] = true
							}
						}
					}
				}
			}
		}
	}
	// frame: the value being followed lies in the body of fn, entered through the results of one call: the parameters
	// of fn stand for the arguments of THAT call (evaluated in the caller: its seen set and its own frame)
	type frame struct {
		fn     *ssa.Function
		args   []ssa.Value
		seen   map[ssa.Value]bool
		parent *frame
	}
	var isLengthIn func(v ssa.Value, depth int, seen map[ssa.Value]bool, fr *frame) (bool, string)
	// resultIsLength: result number idx of the call is a length: the call is the builtin len, or a static call of a
	// function of the module (with a body, without a recover block that could replace the results) every Return of which
	// returns a length in that position.  A callee already being followed (recursion) is not resolved.
	resultIsLength := func(x *ssa.Call, idx int, depth int, seen map[ssa.Value]bool, fr *frame) (bool, string) {
		if bi, ok := x.Common().Value.(*ssa.Builtin); ok && bi.Name() == "len" && idx == 0 {
			return true, "len(..)"
		}
		name := "result of " + x.Common().Value.Name()
		sc := x.Common().StaticCallee()
		if sc == nil || sc.Pkg == nil || sc.Pkg.Pkg == nil || len(sc.Blocks) == 0 || sc.Recover != nil {
			return false, name
		}
		if pp := sc.Pkg.Pkg.Path(); pp != mod && !strings.HasPrefix(pp, mod+"/") {
			return false, name
		}
		for f := fr; f != nil; f = f.parent {
			if f.fn == sc {
				return false, name + " (recursive)"
			}
		}
		inner := &frame{fn: sc, args: x.Common().Args, seen: seen, parent: fr}
		innerSeen := map[ssa.Value]bool{}
		why, n := "", 0
		for _, b := range sc.Blocks {
			for _, ins := range b.Instrs {
				ret, ok := ins.(*ssa.Return)
				if !ok {
					continue
				}
				if idx >= len(ret.Results) {
					return false, name
				}
				ok, w := isLengthIn(ret.Results[idx], depth+1, innerSeen, inner)
				if !ok {
					return false, w + " returned by " + sc.Name()
				}
				if w != "" {
					why = w
				}
				n++
			}
		}
		if n == 0 {
			return false, name
		}
		return true, why + " returned by " + sc.Name()
	}
	isLengthIn = func(v ssa.Value, depth int, seen map[ssa.Value]bool, fr *frame) (bool, string) {
		isLength := func(v ssa.Value, depth int, seen map[ssa.Value]bool) (bool, string) {
			return isLengthIn(v, depth, seen, fr)
		}
		if v == nil || depth > 8 {
			return false, "?"
		}
		if seen[v] {
			return true, "" // a cycle of phis adds nothing
		}
		seen[v] = true
		switch x := v.(type) {
		case *ssa.Const:
			if x.Value != nil && x.Value.Kind() == constant.Int && constant.Sign(x.Value) >= 0 {
				return true, "constant " + x.Value.String()
			}
			return false, "constant " + x.String()
		case *ssa.Call:
			return resultIsLength(x, 0, depth, seen, fr)
		case *ssa.Extract:
			if c, ok := x.Tuple.(*ssa.Call); ok {
				return resultIsLength(c, x.Index, depth, seen, fr)
			}
		case *ssa.Convert:
			if b, ok := x.Type().Underlying().(*types.Basic); ok && b.Info()&types.IsInteger != 0 {
				return isLength(x.X, depth+1, seen)
			}
		case *ssa.ChangeType:
			return isLength(x.X, depth+1, seen)
		case *ssa.Phi:
			why := ""
			for _, e := range x.Edges {
				ok, w := isLength(e, depth+1, seen)
				if !ok {
					return false, w
				}
				if w != "" {
					why = w
				}
			}
			return true, why
		case *ssa.UnOp:
			if x.Op == token.MUL {
				// a local variable whose address is taken: every store to it
				if al, ok := x.X.(*ssa.Alloc); ok && al.Referrers() != nil {
					why, n := "", 0
					for _, r := range *al.Referrers() {
						if st, ok := r.(*ssa.Store); ok && st.Addr == al {
							ok, w := isLength(st.Val, depth+1, seen)
							if !ok {
								return false, w
							}
							why = w
							n++
						} else if _, isLoad := r.(*ssa.UnOp); !isLoad {
							if _, isDbg := r.(*ssa.DebugRef); !isDbg {
								return false, "local variable that escapes"
							}
						}
					}
					return n > 0, why
				}
			}
		case *ssa.Parameter:
			f := x.Parent()
			idx := -1
			for i, p := range f.Params {
				if p == x {
					idx = i
				}
			}
			if idx >= 0 && fr != nil && fr.fn == f {
				// the body of f is being followed for the results of one call: the parameter is that call's argument
				if idx >= len(fr.args) {
					return false, "parameter " + x.Name() + " of " + f.Name()
				}
				delete(seen, v) // decided per call, not once for the function
				return isLengthIn(fr.args[idx], depth+1, fr.seen, fr.parent)
			}
			if idx < 0 || token.IsExported(f.Name()) || asValue[f] || len(sites[f]) == 0 {
				return false, "parameter " + x.Name() + " of " + f.Name()
			}
			why := ""
			for _, ci := range sites[f] {
				args := ci.Common().Args
				if idx >= len(args) {
					return false, "parameter " + x.Name() + " of " + f.Name()
				}
				ok, w := isLength(args[idx], depth+1, seen)
				if !ok {
					return false, w
				}
				why = w
			}
			return true, why + " through " + f.Name()
		case *ssa.BinOp:
			return false, "arithmetic (" + x.Op.String() + ")"
		}
		return false, fmt.Sprintf("%T", v)
	}
	for _, f := range fns {
		for _, b := range f.Blocks {
			for _, ins := range b.Instrs {
				ci, ok := ins.(ssa.CallInstruction)
				if !ok {
					continue
				}
				sc := ci.Common().StaticCallee()
				if sc == nil || sc.Pkg == nil || sc.Pkg.Pkg.Path() != mod+"/pkg/metrics" || sc.Name() != "RecordTokenization" || len(ci.Common().Args) < 2 {
					continue
				}
				if f.Pkg != nil && f.Pkg.Pkg.Path() == mod+"/pkg/metrics" {
					continue
				}
				pos := prog.Fset.Position(ins.Pos())
				if strings.HasSuffix(pos.Filename, "_test.go") {
					continue
				}
				okLen, why := isLengthIn(ci.Common().Args[1], 0, map[ssa.Value]bool{}, nil)
				out.MetricsCallers = append(out.MetricsCallers, J{"pos": fmt.Sprintf("%s:%d", shortFile(pos.Filename), pos.Line),
					"size_arg": why, "nonneg": okLen, "func": fnName(rootFn(f))})
			}
		}
	}
	sort.Slice(out.MetricsCallers, func(i, j int) bool {
		return out.MetricsCallers[i]["pos"].(string) < out.MetricsCallers[j]["pos"].(string)
	})
}

// publicNames: field of the metrics struct -> field of the public snapshot it is reported in, read off the snapshot
// functions (GetStats / GetMetrics) and the same-package functions they call: WHEREVER a value read from g.F
// (atomic load, plain read, through a local, a conversion or a one-argument helper) is published in a field K of the
// snapshot type — a key of a composite literal `Stats{K: v}`, an assignment `stats.K = v`, or a
// `range g.F { snapshot.K[...] = ... }`.  The value is also followed through a FIELD OF AN INTERMEDIATE STRUCT of the package
// (`counters{min: load(&g.F)}` in one function, `Stats{K: c.min}` in another): field-sensitive, per struct type; a field
// that receives anything else than the value of one metrics field anywhere in the scanned functions carries nothing.
// Parameters / receivers of the scanned callees that are given the metrics variable stand for it.
func publicNames(p *packages.Package, vars []types.Object, funcs map[types.Object]*ast.FuncDecl) map[string]string {
	res := map[string]string{}
	t := newMtr(p, vars, funcs)
	publish := func(f, k string) {
		if _, dup := res[f]; !dup {
			res[f] = k
		}
	}
	for _, file := range p.Syntax {
		for _, d := range file.Decls {
			fd, ok := d.(*ast.FuncDecl)
			if !ok || fd.Recv != nil || fd.Body == nil || (fd.Name.Name != "GetStats" && fd.Name.Name != "GetMetrics") {
				continue
			}
			// the snapshot type: what the function returns
			var snap types.Type
			if fn, _ := p.TypesInfo.Defs[fd.Name].(*types.Func); fn != nil {
				if r := fn.Type().(*types.Signature).Results(); r.Len() > 0 {
					snap = deref(r.At(0).Type())
				}
			}
			isSnap := func(ty types.Type) bool { return snap == nil || (ty != nil && types.Identical(deref(ty), snap)) }
			// a parameter / receiver of a scanned callee that is given the metrics variable (g, &g, or such a parameter) at
			// every scanned call stands for it
			aliasBad := map[types.Object]bool{}
			bindG := func(call *ast.CallExpr, c *ast.FuncDecl) {
				bind := func(po types.Object, arg ast.Expr) {
					if po == nil || aliasBad[po] {
						return
					}
					arg = ast.Unparen(arg)
					if u, ok := arg.(*ast.UnaryExpr); ok && u.Op == token.AND {
						arg = ast.Unparen(u.X)
					}
					var g types.Object
					if id, ok := arg.(*ast.Ident); ok {
						obj := p.TypesInfo.Uses[id]
						if _, isg := t.isG(obj); isg {
							g = obj
							if a, ok := t.alias[obj]; ok {
								g = a
							}
						}
					}
					if old, has := t.alias[po]; g == nil || (has && old != g) {
						if has {
							delete(t.alias, po)
							aliasBad[po] = true
						}
						if _, isStruct := deref(po.Type()).Underlying().(*types.Struct); isStruct {
							aliasBad[po] = true // given something else somewhere
						}
						return
					}
					t.alias[po] = g
				}
				if c.Recv != nil && len(c.Recv.List) == 1 && len(c.Recv.List[0].Names) == 1 {
					if sel, ok := ast.Unparen(call.Fun).(*ast.SelectorExpr); ok {
						bind(p.TypesInfo.Defs[c.Recv.List[0].Names[0]], sel.X)
					}
				}
				var pobjs []types.Object
				for _, fl := range c.Type.Params.List {
					if _, variadic := fl.Type.(*ast.Ellipsis); variadic {
						return
					}
					if len(fl.Names) == 0 {
						pobjs = append(pobjs, nil)
					}
					for _, n := range fl.Names {
						pobjs = append(pobjs, p.TypesInfo.Defs[n])
					}
				}
				if len(pobjs) != len(call.Args) {
					return
				}
				for i, po := range pobjs {
					bind(po, call.Args[i])
				}
			}
			// the function and what it calls in the package (two levels)
			scan := []*ast.FuncDecl{fd}
			seen := map[*ast.FuncDecl]bool{fd: true}
			for level, from := 0, 0; level < 2; level++ {
				to := len(scan)
				for _, g := range scan[from:to] {
					ast.Inspect(g.Body, func(n ast.Node) bool {
						if call, ok := n.(*ast.CallExpr); ok {
							if c := t.calleeOf(call); c != nil && c.Body != nil {
								bindG(call, c)
								if !seen[c] {
									seen[c] = true
									scan = append(scan, c)
								}
							}
						}
						return true
					})
				}
				from = to
			}
			// fields of intermediate structs: named struct types of the package other than the snapshot and the metrics structs
			isInter := func(ty types.Type) bool {
				if ty == nil {
					return false
				}
				nt, ok := deref(ty).(*types.Named)
				if !ok || nt.Obj().Pkg() != p.Types || (snap != nil && types.Identical(nt, snap)) {
					return false
				}
				if _, isStruct := nt.Underlying().(*types.Struct); !isStruct {
					return false
				}
				for _, v := range vars {
					if types.Identical(deref(v.Type()), nt) {
						return false
					}
				}
				return true
			}
			inter := map[types.Object]string{} // result of the previous collection pass
			var newInter map[types.Object]string
			var newBad map[types.Object]bool
			setInter := func(fv types.Object, f string, ok bool) {
				if fv == nil || newInter == nil {
					return
				}
				if old, has := newInter[fv]; !ok || (has && old != f) {
					newBad[fv] = true
					return
				}
				newInter[fv] = f
			}
			local := map[types.Object]string{}
			var fieldOfValue func(e ast.Expr) (string, bool)
			fieldOfValue = func(e ast.Expr) (string, bool) {
				e = ast.Unparen(e)
				if sel, ok := e.(*ast.SelectorExpr); ok {
					if sn := p.TypesInfo.Selections[sel]; sn != nil && sn.Kind() == types.FieldVal && isInter(sn.Recv()) {
						f, ok := inter[sn.Obj()]
						return f, ok
					}
				}
				if id, ok := e.(*ast.Ident); ok {
					f, ok := local[p.TypesInfo.Uses[id]]
					return f, ok
				}
				if op, f, _, ok := t.atomicCall(e); ok && op == "load" {
					return f, true
				}
				if call, ok := e.(*ast.CallExpr); ok && len(call.Args) == 1 {
					if tv, ok := p.TypesInfo.Types[call.Fun]; ok && tv.IsType() {
						return fieldOfValue(call.Args[0]) // conversion
					}
					if t.calleeOf(call) != nil {
						if f, ok := t.fieldOf(call.Args[0]); ok { // load helper: get(&g.F)
							return f, true
						}
					}
				}
				if isValueForm(e) {
					return t.fieldOf(e)
				}
				return "", false
			}
			const collectPasses = 4
			for pass := 0; pass <= collectPasses; pass++ {
				final := pass == collectPasses
				local = map[types.Object]string{}
				newInter, newBad = map[types.Object]string{}, map[types.Object]bool{}
				if final {
					newInter, newBad = nil, nil
				}
				publish := func(f, k string) {
					if final {
						publish(f, k)
					}
				}
				for _, g := range scan {
					ast.Inspect(g.Body, func(n ast.Node) bool {
						switch x := n.(type) {
						case *ast.ValueSpec:
							for i, id := range x.Names {
								if i < len(x.Values) {
									if f, ok := fieldOfValue(x.Values[i]); ok {
										local[p.TypesInfo.Defs[id]] = f
									}
								}
							}
						case *ast.AssignStmt:
							if len(x.Lhs) != len(x.Rhs) {
								return true
							}
							for i := range x.Lhs {
								f, ok := fieldOfValue(x.Rhs[i])
								if l, isSel := ast.Unparen(x.Lhs[i]).(*ast.SelectorExpr); isSel {
									// c.k = v / c.k += v for a field of an intermediate struct
									if sn := p.TypesInfo.Selections[l]; sn != nil && sn.Kind() == types.FieldVal && isInter(sn.Recv()) {
										setInter(sn.Obj(), f, ok && x.Tok == token.ASSIGN)
										continue
									}
								}
								if !ok {
									continue
								}
								switch l := ast.Unparen(x.Lhs[i]).(type) {
								case *ast.Ident:
									obj := p.TypesInfo.Defs[l]
									if obj == nil {
										obj = p.TypesInfo.Uses[l]
									}
									if obj != nil {
										local[obj] = f
									}
								case *ast.SelectorExpr:
									// stats.K = v
									if tv, ok := p.TypesInfo.Types[l.X]; ok && isSnap(tv.Type) && x.Tok == token.ASSIGN {
										publish(f, l.Sel.Name)
									}
								}
							}
						case *ast.CompositeLit:
							if tv, ok := p.TypesInfo.Types[x]; ok && isInter(tv.Type) {
								// counters{k: v, ...}: every field written here carries the metrics field v reads, or nothing
								st := deref(tv.Type).Underlying().(*types.Struct)
								for i, el := range x.Elts {
									if kv, ok := el.(*ast.KeyValueExpr); ok {
										if k, ok := kv.Key.(*ast.Ident); ok {
											f, ok := fieldOfValue(kv.Value)
											setInter(p.TypesInfo.Uses[k], f, ok)
										}
									} else if i < st.NumFields() {
										f, ok := fieldOfValue(el)
										setInter(st.Field(i), f, ok)
									}
								}
								return true
							}
							if tv, ok := p.TypesInfo.Types[x]; ok && !isSnap(tv.Type) {
								return true
							}
							for _, el := range x.Elts {
								if kv, ok := el.(*ast.KeyValueExpr); ok {
									if k, ok := kv.Key.(*ast.Ident); ok {
										if f, ok := fieldOfValue(kv.Value); ok {
											publish(f, k.Name)
										}
									}
								}
							}
						case *ast.RangeStmt:
							if f, ok := t.fieldOf(x.X); ok {
								// for k, v := range g.F { snapshot.K[k] = v }
								ast.Inspect(x.Body, func(m ast.Node) bool {
									if as, ok := m.(*ast.AssignStmt); ok && len(as.Lhs) == 1 {
										if ix, ok := as.Lhs[0].(*ast.IndexExpr); ok {
											if sel, ok := ix.X.(*ast.SelectorExpr); ok {
												res[f] = sel.Sel.Name
											}
										}
									}
									return true
								})
							}
						}
						return true
					})
				}
				if !final {
					for fv := range newBad {
						delete(newInter, fv)
					}
					inter = newInter
				}
			}
		}
	}
	return res
}

func newMtr(p *packages.Package, vars []types.Object, funcs map[types.Object]*ast.FuncDecl) *mtr {
	return &mtr{p: p, gvars: gvarPrefixes(vars), alias: map[types.Object]types.Object{}, ptr: map[types.Object]string{}, funcs: funcs,
		touchM: map[*ast.FuncDecl]int{}, fnarg: map[types.Object]*ast.FuncDecl{}, lits: map[*ast.FuncLit]*ast.FuncDecl{}, params: map[types.Object]int{}, env: map[types.Object]interface{}{}, regs: map[types.Object]int{}}
}

func paramKind(t types.Type) string {
	if types.Identical(t, types.Universe.Lookup("error").Type()) {
		return "error"
	}
	if b, ok := t.Underlying().(*types.Basic); ok && b.Info()&types.IsBoolean != 0 {
		return "bool"
	}
	return "int"
}

func translateRecord(p *packages.Package, short string, vars []types.Object, funcs map[types.Object]*ast.FuncDecl, fd *ast.FuncDecl) *MProg {
	t := newMtr(p, vars, funcs)
	mp := &MProg{Pkg: short, Func: fd.Name.Name, Struct: types.TypeString(deref(vars[0].Type()), func(*types.Package) string { return "" })}
	for _, v := range vars {
		mp.Vars = append(mp.Vars, v.Name())
	}
	for _, fl := range fd.Type.Params.List {
		for _, n := range fl.Names {
			obj := p.TypesInfo.Defs[n]
			t.params[obj] = t.nparams
			t.nparams++
			mp.Params = append(mp.Params, n.Name)
			mp.PKinds = append(mp.PKinds, paramKind(obj.Type()))
		}
	}
	stmts := fd.Body.List
	// prologue: if <condition not mentioning the parameters> { return }
	if len(stmts) > 0 {
		if is, ok := stmts[0].(*ast.IfStmt); ok && is.Init == nil && is.Else == nil && len(is.Body.List) == 1 {
			if rs, ok := is.Body.List[0].(*ast.ReturnStmt); ok && len(rs.Results) == 0 && !t.mentionsParam(is.Cond) {
				mp.Guard = t.text(is.Cond)
				stmts = stmts[1:]
			}
		}
	}
	mp.Sections = t.block(stmts, nil, "", false, true)
	mp.Opaque = t.opaque
	return mp
}

func (t *mtr) text(n ast.Node) string {
	var b strings.Builder
	pos, end := t.p.Fset.Position(n.Pos()), t.p.Fset.Position(n.End())
	_ = end
	fmt.Fprintf(&b, "%s:%d", shortFile(pos.Filename), pos.Line)
	return b.String() + " " + types.ExprString(asExpr(n))
}

func asExpr(n ast.Node) ast.Expr {
	if e, ok := n.(ast.Expr); ok {
		return e
	}
	return &ast.Ident{Name: fmt.Sprintf("<%T>", n)}
}

func (t *mtr) pos(n ast.Node) string {
	pos := t.p.Fset.Position(n.Pos())
	return fmt.Sprintf("%s:%d", shortFile(pos.Filename), pos.Line)
}

func (t *mtr) mentionsParam(n ast.Node) bool {
	found := false
	ast.Inspect(n, func(x ast.Node) bool {
		if id, ok := x.(*ast.Ident); ok {
			if _, ok := t.params[t.p.TypesInfo.Uses[id]]; ok {
				found = true
			}
		}
		return true
	})
	return found
}

// isG: obj is a metrics variable, or a parameter / receiver of an inlined callee bound to one
func (t *mtr) isG(obj types.Object) (prefix string, ok bool) {
	if obj == nil {
		return "", false
	}
	if g, ok := t.alias[obj]; ok {
		obj = g
	}
	prefix, ok = t.gvars[obj]
	return
}

// fieldOf: e is g.F (or &g.F, or g.F[k]) for a metrics variable g, or a pointer parameter of an inlined callee
// that holds &g.F (addr, *addr) -> F
func (t *mtr) fieldOf(e ast.Expr) (string, bool) {
	e = ast.Unparen(e)
	if u, ok := e.(*ast.UnaryExpr); ok && u.Op == token.AND {
		e = ast.Unparen(u.X)
	}
	if ix, ok := e.(*ast.IndexExpr); ok {
		e = ast.Unparen(ix.X)
	}
	if st, ok := e.(*ast.StarExpr); ok {
		e = ast.Unparen(st.X)
	}
	if id, ok := e.(*ast.Ident); ok {
		f, ok := t.ptr[t.p.TypesInfo.Uses[id]]
		return f, ok
	}
	sel, ok := e.(*ast.SelectorExpr)
	if !ok {
		return "", false
	}
	id, ok := ast.Unparen(sel.X).(*ast.Ident)
	if !ok {
		return "", false
	}
	pre, ok := t.isG(t.p.TypesInfo.Uses[id])
	if !ok {
		return "", false
	}
	return pre + sel.Sel.Name, true
}

// isValueForm: e denotes the field itself (g.F, *addr), not its address
func isValueForm(e ast.Expr) bool {
	switch ast.Unparen(e).(type) {
	case *ast.SelectorExpr, *ast.StarExpr:
		return true
	}
	return false
}

// atomicCall: sync/atomic function call on a field, or a method of a sync/atomic type field
// returns op (load|store|add|cas), field, value operands
func (t *mtr) atomicCall(e ast.Expr) (op, field string, args []ast.Expr, ok bool) {
	call, isCall := ast.Unparen(e).(*ast.CallExpr)
	if !isCall {
		return
	}
	sel, isSel := call.Fun.(*ast.SelectorExpr)
	if !isSel {
		return
	}
	fn, _ := t.p.TypesInfo.Uses[sel.Sel].(*types.Func)
	if fn == nil || fn.Pkg() == nil || fn.Pkg().Path() != "sync/atomic" {
		return
	}
	name := fn.Name()
	classify := func(n string) string {
		switch {
		case strings.HasPrefix(n, "Load"):
			return "load"
		case strings.HasPrefix(n, "Store"):
			return "store"
		case strings.HasPrefix(n, "Add"):
			return "add"
		case strings.HasPrefix(n, "CompareAndSwap"):
			return "cas"
		}
		return ""
	}
	op = classify(name)
	if op == "" {
		return "", "", nil, false
	}
	if fn.Type().(*types.Signature).Recv() != nil {
		// method on an atomic.Int64-like field: globalMetrics.F.Add(x)
		f, ok2 := t.fieldOf(sel.X)
		if !ok2 {
			return "", "", nil, false
		}
		return op, f, call.Args, true
	}
	if len(call.Args) == 0 {
		return "", "", nil, false
	}
	f, ok2 := t.fieldOf(call.Args[0])
	if !ok2 {
		return "", "", nil, false
	}
	return op, f, call.Args[1:], true
}

// lockCall: globalMetrics.M.Lock() / Unlock() / RLock() / RUnlock()
func (t *mtr) lockCall(s ast.Stmt) (method, field string, ok bool) {
	if m, f, ok := t.guardCall(s); ok {
		return m, f, true
	}
	es, isE := s.(*ast.ExprStmt)
	if !isE {
		return
	}
	call, isCall := es.X.(*ast.CallExpr)
	if !isCall {
		return
	}
	if id, isId := ast.Unparen(call.Fun).(*ast.Ident); isId && len(call.Args) == 0 {
		// unlock()  for  unlock := g.guard()
		if mf, ok := t.unlockF[t.p.TypesInfo.Uses[id]]; ok {
			return mf[0], mf[1], true
		}
	}
	sel, isSel := call.Fun.(*ast.SelectorExpr)
	if !isSel {
		return
	}
	fn, _ := t.p.TypesInfo.Uses[sel.Sel].(*types.Func)
	if fn == nil || fn.Pkg() == nil || fn.Pkg().Path() != "sync" {
		return
	}
	f, ok2 := t.fieldOf(sel.X)
	if !ok2 {
		return
	}
	return fn.Name(), f, true
}

// guardCall: s is `unlock := g.guard()` for a same-package function / method without parameters whose whole body is
// `X.M.Lock(); return X.M.Unlock` (or RLock / RUnlock) on a mutex field M of the metrics variable (X: the variable, or
// the receiver given the variable), and `unlock` is never assigned again: the statement IS the Lock of M, and a call
// of the local (`unlock()`, `defer unlock()`) is the matching Unlock.  Any other use of the local mentions M (locs)
// and is not recognised.
func (t *mtr) guardCall(s ast.Stmt) (method, field string, ok bool) {
	as, isA := s.(*ast.AssignStmt)
	if !isA || as.Tok != token.DEFINE || len(as.Lhs) != 1 || len(as.Rhs) != 1 {
		return
	}
	lid, isId := as.Lhs[0].(*ast.Ident)
	call, isCall := ast.Unparen(as.Rhs[0]).(*ast.CallExpr)
	if !isId || !isCall || len(call.Args) != 0 {
		return
	}
	obj := t.p.TypesInfo.Defs[lid]
	fd := t.calleeOf(call)
	if obj == nil || fd == nil || fd.Body == nil || fd.Type.Params.NumFields() != 0 || len(fd.Body.List) != 2 || t.assignedAgain(obj) {
		return
	}
	if fd.Recv != nil {
		// the receiver stands for the metrics variable the method is called on
		sel, isSel := ast.Unparen(call.Fun).(*ast.SelectorExpr)
		if !isSel || len(fd.Recv.List) != 1 || len(fd.Recv.List[0].Names) != 1 {
			return
		}
		arg := ast.Unparen(sel.X)
		if u, isU := arg.(*ast.UnaryExpr); isU && u.Op == token.AND {
			arg = ast.Unparen(u.X)
		}
		aid, isId := arg.(*ast.Ident)
		if !isId {
			return
		}
		g := t.p.TypesInfo.Uses[aid]
		if _, isg := t.isG(g); !isg {
			return
		}
		if a, has := t.alias[g]; has {
			g = a
		}
		robj := t.p.TypesInfo.Defs[fd.Recv.List[0].Names[0]]
		if robj == nil {
			return
		}
		if old, had := t.alias[robj]; had {
			defer func() { t.alias[robj] = old }()
		} else {
			defer delete(t.alias, robj)
		}
		t.alias[robj] = g
	}
	es, isE := fd.Body.List[0].(*ast.ExprStmt)
	rs, isR := fd.Body.List[1].(*ast.ReturnStmt)
	if !isE || !isR || len(rs.Results) != 1 {
		return
	}
	m1, f1, ok1 := t.lockCall(es)
	rsel, isSel := ast.Unparen(rs.Results[0]).(*ast.SelectorExpr)
	if !ok1 || !isSel {
		return
	}
	fn, _ := t.p.TypesInfo.Uses[rsel.Sel].(*types.Func)
	if fn == nil || fn.Pkg() == nil || fn.Pkg().Path() != "sync" {
		return
	}
	f2, ok2 := t.fieldOf(rsel.X)
	if !ok2 || !isValueForm(rsel.X) || f2 != f1 || !((m1 == "Lock" && fn.Name() == "Unlock") || (m1 == "RLock" && fn.Name() == "RUnlock")) {
		return
	}
	if t.unlockF == nil {
		t.unlockF = map[types.Object][2]string{}
	}
	t.unlockF[obj] = [2]string{fn.Name(), f1}
	return m1, f1, true
}

// locs: fields of the metrics struct mentioned in n
func (t *mtr) locs(n ast.Node) []string {
	set := map[string]bool{}
	ast.Inspect(n, func(x ast.Node) bool {
		switch y := x.(type) {
		case *ast.SelectorExpr:
			if id, ok := ast.Unparen(y.X).(*ast.Ident); ok {
				if pre, ok := t.isG(t.p.TypesInfo.Uses[id]); ok {
					set[pre+y.Sel.Name] = true
				}
			}
		case *ast.Ident:
			if f, ok := t.ptr[t.p.TypesInfo.Uses[y]]; ok {
				set[f] = true
			}
			if mf, ok := t.unlockF[t.p.TypesInfo.Uses[y]]; ok {
				set[mf[1]] = true
			}
		}
		return true
	})
	var r []string
	for k := range set {
		r = append(r, k)
	}
	sort.Strings(r)
	return r
}

func (t *mtr) mentionsGvarBare(n ast.Node) bool {
	// the metrics variable used other than through a field selection
	bad := false
	var parents []ast.Node
	ast.Inspect(n, func(x ast.Node) bool {
		if x == nil {
			parents = parents[:len(parents)-1]
			return true
		}
		if id, ok := x.(*ast.Ident); ok {
			if _, isg := t.isG(t.p.TypesInfo.Uses[id]); isg {
				okSel := false
				if len(parents) > 0 {
					if sel, ok := parents[len(parents)-1].(*ast.SelectorExpr); ok && sel.X == id {
						okSel = true
					}
				}
				if !okSel {
					bad = true
				}
			}
		}
		parents = append(parents, x)
		return true
	})
	return bad
}

// calleeOf: the same-package function or method (with a body) a call expression statically calls
func (t *mtr) calleeOf(call *ast.CallExpr) *ast.FuncDecl {
	return t.funcValue(call.Fun)
}

// litDecl: a function literal as an anonymous declaration (one per literal: identity is used by the recursion guard)
func (t *mtr) litDecl(lit *ast.FuncLit) *ast.FuncDecl {
	if d, ok := t.lits[lit]; ok {
		return d
	}
	d := &ast.FuncDecl{Type: lit.Type, Body: lit.Body}
	t.lits[lit] = d
	return d
}

// funcValue: the function an expression denotes, when that is known statically: a same-package function / method, a
// function literal, or a func-typed parameter of an inlined callee bound to one of these at the call site
func (t *mtr) funcValue(e ast.Expr) *ast.FuncDecl {
	var fobj types.Object
	switch f := ast.Unparen(e).(type) {
	case *ast.FuncLit:
		return t.litDecl(f)
	case *ast.Ident:
		fobj = t.p.TypesInfo.Uses[f]
		if d, ok := t.fnarg[fobj]; ok {
			return d
		}
	case *ast.SelectorExpr:
		fobj = t.p.TypesInfo.Uses[f.Sel]
	}
	if fobj == nil {
		return nil
	}
	return t.funcs[fobj]
}

// touches: the body of fd (or of a same-package function it calls) mentions a metrics variable
func (t *mtr) touches(fd *ast.FuncDecl) bool {
	switch t.touchM[fd] {
	case 1:
		return false
	case 2:
		return true
	}
	t.touchM[fd] = 1
	found := false
	ast.Inspect(fd.Body, func(x ast.Node) bool {
		switch y := x.(type) {
		case *ast.Ident:
			if _, ok := t.gvars[t.p.TypesInfo.Uses[y]]; ok {
				found = true
			}
		case *ast.CallExpr:
			if c := t.calleeOf(y); c != nil && t.touches(c) {
				found = true
			}
		}
		return !found
	})
	if found {
		t.touchM[fd] = 2
	}
	return found
}

// callsTouching: n contains a call of a same-package function that touches the metrics state
func (t *mtr) callsTouching(n ast.Node) bool {
	found := false
	ast.Inspect(n, func(x ast.Node) bool {
		if call, ok := x.(*ast.CallExpr); ok {
			if c := t.calleeOf(call); c != nil && t.touches(c) {
				found = true
			}
		}
		return !found
	})
	return found
}

// shared: n reads or writes the metrics state in any way
func (t *mtr) shared(n ast.Node) bool {
	return len(t.locs(n)) > 0 || t.mentionsGvarBare(n) || t.callsTouching(n)
}

// ---- expressions ----

func jconst(v int64) J { return J{"const": fmt.Sprint(v)} }

func (t *mtr) opaqueArg(desc string) interface{} {
	for i, d := range t.opaque {
		if d == desc {
			return J{"arg": t.nparams + i}
		}
	}
	t.opaque = append(t.opaque, desc)
	return J{"arg": t.nparams + len(t.opaque) - 1}
}

// expr: pure expression over parameters, pure locals, registers.  ok=false if it touches shared state.
func (t *mtr) expr(e ast.Expr) (interface{}, bool) {
	e = ast.Unparen(e)
	if tv, ok := t.p.TypesInfo.Types[e]; ok && tv.Value != nil && tv.Value.Kind() == constant.Int {
		if v, exact := constant.Int64Val(tv.Value); exact {
			return jconst(v), true
		}
	}
	switch x := e.(type) {
	case *ast.Ident:
		obj := t.p.TypesInfo.Uses[x]
		if i, ok := t.params[obj]; ok {
			return J{"arg": i}, true
		}
		if r, ok := t.regs[obj]; ok {
			return J{"reg": r}, true
		}
		if v, ok := t.env[obj]; ok {
			return v, true
		}
		if x.Name == "nil" {
			return jconst(0), true
		}
		if x.Name == "true" {
			return jconst(1), true
		}
		if x.Name == "false" {
			return jconst(0), true
		}
		return nil, false
	case *ast.CallExpr:
		// conversion T(x)
		if tv, ok := t.p.TypesInfo.Types[x.Fun]; ok && tv.IsType() && len(x.Args) == 1 {
			return t.expr(x.Args[0])
		}
		if !t.shared(x) {
			// pure with respect to the metrics struct (clock reads, err.Error(), len(..)): an opaque per-call value
			return t.opaqueArg(types.ExprString(x)), true
		}
		return nil, false
	case *ast.BinaryExpr:
		if x.Op == token.ADD {
			a, ok1 := t.expr(x.X)
			b, ok2 := t.expr(x.Y)
			if ok1 && ok2 {
				return J{"add": []interface{}{a, b}}, true
			}
		}
		if !t.shared(x) {
			return t.opaqueArg(types.ExprString(x)), true
		}
		return nil, false
	}
	if !t.shared(e) {
		return t.opaqueArg(types.ExprString(e)), true
	}
	return nil, false
}

func jnot(c interface{}) interface{} {
	m, _ := c.(J)
	if m != nil {
		if x, ok := m["not"]; ok {
			return x
		}
		if x, ok := m["and"]; ok {
			l := x.([]interface{})
			return J{"or": []interface{}{jnot(l[0]), jnot(l[1])}}
		}
		if x, ok := m["or"]; ok {
			l := x.([]interface{})
			return J{"and": []interface{}{jnot(l[0]), jnot(l[1])}}
		}
	}
	return J{"not": c}
}

func jand(a, b interface{}) interface{} {
	if a == nil {
		return b
	}
	if b == nil {
		return a
	}
	return J{"and": []interface{}{a, b}}
}

func rank(e interface{}) int {
	m := e.(J)
	switch {
	case m["reg"] != nil:
		return 0
	case m["arg"] != nil:
		return 1
	case m["add"] != nil:
		return 2
	}
	return 3
}

// cond: boolean expression; hoist(call) is used for atomic calls inside the condition (rmw context only)
func (t *mtr) cond(e ast.Expr, hoist func(ast.Expr) (interface{}, bool)) (interface{}, bool) {
	e = ast.Unparen(e)
	sub := func(x ast.Expr) (interface{}, bool) {
		if hoist != nil {
			if v, ok := hoist(x); ok {
				return v, true
			}
		}
		return t.expr(x)
	}
	switch x := e.(type) {
	case *ast.UnaryExpr:
		if x.Op == token.NOT {
			c, ok := t.cond(x.X, hoist)
			if !ok {
				return nil, false
			}
			return jnot(c), true
		}
	case *ast.BinaryExpr:
		switch x.Op {
		case token.LAND, token.LOR:
			if hoist != nil && t.shared(x) {
				return nil, false // never hoist an atomic call out of a short-circuit operand (jumpCond compiles these)
			}
			a, ok1 := t.cond(x.X, hoist)
			b, ok2 := t.cond(x.Y, hoist)
			if !ok1 || !ok2 {
				return nil, false
			}
			if x.Op == token.LAND {
				return J{"and": []interface{}{a, b}}, true
			}
			return J{"or": []interface{}{a, b}}, true
		case token.LSS, token.GTR, token.LEQ, token.GEQ, token.EQL, token.NEQ:
			a, ok1 := sub(x.X)
			b, ok2 := sub(x.Y)
			if !ok1 || !ok2 {
				return nil, false
			}
			switch x.Op {
			case token.LSS:
				return J{"lt": []interface{}{a, b}}, true
			case token.GTR:
				return J{"lt": []interface{}{b, a}}, true
			case token.LEQ:
				return jnot(J{"lt": []interface{}{b, a}}), true
			case token.GEQ:
				return jnot(J{"lt": []interface{}{a, b}}), true
			}
			if rank(a) > rank(b) {
				a, b = b, a
			}
			if x.Op == token.EQL {
				return J{"eq": []interface{}{a, b}}, true
			}
			return jnot(J{"eq": []interface{}{a, b}}), true
		}
	}
	// a boolean value: parameter, local or hoisted call  (v != 0)
	if v, ok := sub(e); ok {
		return jnot(J{"eq": []interface{}{v, jconst(0)}}), true
	}
	return nil, false
}

// ---- statements -> sections ----

func (t *mtr) unknown(n ast.Node, ctx interface{}, loc string) MSection {
	return MSection{Cond: ctx, Loc: loc, Kind: "unknown", Text: t.text(n), Pos: t.pos(n)}
}

// inlinable: s is a call statement of a same-package function / method that touches the metrics state (through its
// body or through an argument)
func (t *mtr) inlinable(s ast.Stmt) (*ast.CallExpr, *ast.FuncDecl, bool) {
	es, ok := s.(*ast.ExprStmt)
	if !ok {
		return nil, nil, false
	}
	call, ok := ast.Unparen(es.X).(*ast.CallExpr)
	if !ok {
		return nil, nil, false
	}
	fd := t.calleeOf(call)
	if fd == nil {
		return nil, nil, false
	}
	if !t.touches(fd) && len(t.locs(call)) == 0 && !t.mentionsGvarBare(call) {
		return nil, nil, false
	}
	return call, fd, true
}

// inline: the sections of the callee's body with its parameters bound to the arguments: a pointer parameter that
// receives &g.F (or a bound pointer) stands for the field, a parameter / receiver that receives the metrics variable
// stands for it, every other parameter is a pure local
func (t *mtr) inline(s ast.Stmt, call *ast.CallExpr, fd *ast.FuncDecl, ctx interface{}, locked string) []MSection {
	fail := func() []MSection { return []MSection{t.unknown(s, ctx, "?")} }
	if len(t.stack) >= inlineDepth {
		return fail()
	}
	for _, f := range t.stack {
		if f == fd {
			return fail()
		}
	}
	type binding struct {
		obj types.Object
		arg ast.Expr
	}
	var bs []binding
	if fd.Recv != nil && len(fd.Recv.List) == 1 && len(fd.Recv.List[0].Names) == 1 {
		sel, ok := ast.Unparen(call.Fun).(*ast.SelectorExpr)
		if !ok {
			return fail()
		}
		bs = append(bs, binding{t.p.TypesInfo.Defs[fd.Recv.List[0].Names[0]], sel.X})
	}
	var pobjs []types.Object
	for _, fl := range fd.Type.Params.List {
		if _, variadic := fl.Type.(*ast.Ellipsis); variadic {
			return fail()
		}
		if len(fl.Names) == 0 {
			pobjs = append(pobjs, nil)
		}
		for _, n := range fl.Names {
			pobjs = append(pobjs, t.p.TypesInfo.Defs[n])
		}
	}
	if len(pobjs) != len(call.Args) {
		return fail()
	}
	for i, o := range pobjs {
		bs = append(bs, binding{o, call.Args[i]})
	}
	// evaluate the bindings in the caller's environment, then install them
	newPtr, newAlias, newEnv := map[types.Object]string{}, map[types.Object]types.Object{}, map[types.Object]interface{}{}
	newFn := map[types.Object]*ast.FuncDecl{}
	for _, b := range bs {
		arg := ast.Unparen(b.arg)
		if b.obj != nil {
			if _, isFunc := b.obj.Type().Underlying().(*types.Signature); isFunc {
				// a function handed to the callee: its body runs where the callee calls the parameter
				fv := t.funcValue(arg)
				if fv == nil {
					return fail()
				}
				newFn[b.obj] = fv
				continue
			}
		}
		if u, ok := arg.(*ast.UnaryExpr); ok && u.Op == token.AND {
			if id, ok := ast.Unparen(u.X).(*ast.Ident); ok {
				arg = id // &g for a struct-valued metrics variable
			}
		}
		if id, ok := arg.(*ast.Ident); ok {
			obj := t.p.TypesInfo.Uses[id]
			if _, isg := t.isG(obj); isg {
				if g, ok := t.alias[obj]; ok {
					obj = g
				}
				if b.obj != nil {
					newAlias[b.obj] = obj
				}
				continue
			}
		}
		if f, ok := t.fieldOf(b.arg); ok && !isValueForm(b.arg) {
			if _, isIdx := ast.Unparen(b.arg).(*ast.IndexExpr); !isIdx {
				if b.obj != nil {
					newPtr[b.obj] = f
				}
				continue
			}
		}
		if t.shared(b.arg) {
			return fail()
		}
		v, ok := t.expr(b.arg)
		if !ok {
			return fail()
		}
		if b.obj != nil {
			newEnv[b.obj] = v
		}
	}
	for k, v := range newPtr {
		t.ptr[k] = v
	}
	for k, v := range newAlias {
		t.alias[k] = v
	}
	for k, v := range newEnv {
		t.env[k] = v
	}
	for k, v := range newFn {
		t.fnarg[k] = v
	}
	t.stack = append(t.stack, fd)
	out := t.block(fd.Body.List, ctx, locked, true, true)
	t.stack = t.stack[:len(t.stack)-1]
	for k := range newFn {
		delete(t.fnarg, k)
	}
	for k := range newPtr {
		delete(t.ptr, k)
	}
	for k := range newAlias {
		delete(t.alias, k)
	}
	return out
}

func isIndexExpr(e ast.Expr) bool {
	_, ok := ast.Unparen(e).(*ast.IndexExpr)
	return ok
}

// assignedAgain: obj (a local variable) is assigned somewhere other than by the statement that defines it, or its
// address is taken (so that it could be assigned through the pointer): it does not name one value
func (t *mtr) assignedAgain(obj types.Object) bool {
	if t.multi == nil {
		t.multi = map[types.Object]bool{}
		mark := func(e ast.Expr) {
			if id, ok := ast.Unparen(e).(*ast.Ident); ok {
				if o := t.p.TypesInfo.Uses[id]; o != nil { // Uses: not the defining occurrence
					t.multi[o] = true
				}
			}
		}
		for _, f := range t.p.Syntax {
			ast.Inspect(f, func(n ast.Node) bool {
				switch x := n.(type) {
				case *ast.AssignStmt:
					for _, l := range x.Lhs {
						mark(l)
					}
				case *ast.IncDecStmt:
					mark(x.X)
				case *ast.RangeStmt:
					if x.Key != nil {
						mark(x.Key)
					}
					if x.Value != nil {
						mark(x.Value)
					}
				case *ast.UnaryExpr:
					if x.Op == token.AND {
						mark(x.X)
					}
				}
				return true
			})
		}
	}
	return t.multi[obj]
}

// deferredUnlock: s is `defer g.M.Unlock()` (or the same unlock wrapped in a parameterless function)
func (t *mtr) deferredUnlock(s ast.Stmt) (field string, ok bool) {
	ds, isD := s.(*ast.DeferStmt)
	if !isD {
		return "", false
	}
	m, f, ok := t.lockCall(&ast.ExprStmt{X: ds.Call})
	if ok && m == "Unlock" {
		return f, true
	}
	// defer func() { g.M.Unlock() }()  /  defer release()  with  func release() { g.M.Unlock() }: a deferred call, without
	// arguments, of a function literal or same-package function without parameters whose whole body is that one unlock
	if len(ds.Call.Args) == 0 {
		if fd := t.funcValue(ds.Call.Fun); fd != nil && fd.Recv == nil && fd.Body != nil && fd.Type.Params.NumFields() == 0 && len(fd.Body.List) == 1 {
			if m, f, ok := t.lockCall(fd.Body.List[0]); ok && m == "Unlock" {
				return f, true
			}
		}
	}
	return "", false
}

// block: retOK = stmts is the whole body of an inlined callee (a trailing `return`, and `return` inside a trailing
// read-modify-write group, end the callee); fnTop = stmts are the statements of a function body (of the Record
// function or of an inlined callee), so that a deferred unlock releases at the end of stmts
func (t *mtr) block(stmts []ast.Stmt, ctx interface{}, locked string, retOK bool, fnTop bool) []MSection {
	var out []MSection
	for i := 0; i < len(stmts); i++ {
		s := stmts[i]
		if rs, ok := s.(*ast.ReturnStmt); ok && retOK && i == len(stmts)-1 && len(rs.Results) == 0 {
			continue
		}
		if call, fd, ok := t.inlinable(s); ok {
			out = append(out, t.inline(s, call, fd, ctx, locked)...)
			continue
		}
		// m := g  (a local name for the metrics variable)
		if as, ok := s.(*ast.AssignStmt); ok && as.Tok == token.DEFINE && len(as.Lhs) == 1 && len(as.Rhs) == 1 {
			if lid, ok := as.Lhs[0].(*ast.Ident); ok {
				if rid, ok := ast.Unparen(as.Rhs[0]).(*ast.Ident); ok {
					robj := t.p.TypesInfo.Uses[rid]
					if _, isg := t.isG(robj); isg && t.p.TypesInfo.Defs[lid] != nil {
						if g, ok := t.alias[robj]; ok {
							robj = g
						}
						t.alias[t.p.TypesInfo.Defs[lid]] = robj
						continue
					}
				}
			}
		}
		// mu := &g.F  (a local name for the address of a field, never assigned again and never itself addressed): the
		// local stands for the field exactly like a pointer parameter of an inlined callee
		if as, ok := s.(*ast.AssignStmt); ok && as.Tok == token.DEFINE && len(as.Lhs) == 1 && len(as.Rhs) == 1 {
			if lid, ok := as.Lhs[0].(*ast.Ident); ok {
				rhs := ast.Unparen(as.Rhs[0])
				_, isAddr := rhs.(*ast.UnaryExpr)
				_, isPtrName := rhs.(*ast.Ident) // p := q for a bound pointer q
				if obj := t.p.TypesInfo.Defs[lid]; obj != nil && (isAddr || isPtrName) && !t.assignedAgain(obj) {
					if f, ok := t.fieldOf(rhs); ok && !isValueForm(rhs) {
						if u, ok := rhs.(*ast.UnaryExpr); !ok || !isIndexExpr(u.X) {
							t.ptr[obj] = f
							continue
						}
					}
				}
			}
		}
		// control leaves the function / runs elsewhere: nothing after it can be described as a sequence of sections
		// (statements that touch a field handle `return` themselves: rmwc.stmt, or the recursive call for a pure `if`)
		if len(t.locs(s)) == 0 && escapesControl(s) {
			out = append(out, t.unknown(s, ctx, "?"))
			continue
		}
		// lock regions
		if m, f, ok := t.lockCall(s); ok {
			if m == "Lock" && locked == "" {
				// find the matching Unlock at this level
				j := i + 1
				for ; j < len(stmts); j++ {
					if m2, f2, ok2 := t.lockCall(stmts[j]); ok2 && m2 == "Unlock" && f2 == f {
						break
					}
				}
				if j < len(stmts) {
					out = append(out, t.block(stmts[i+1:j], ctx, f, false, false)...)
					i = j
					continue
				}
				// g.M.Lock(); ...; defer g.M.Unlock(); ...  at the top level of a function body: the critical section is
				// everything from the Lock to the end of the body (the deferred unlock runs when the function returns)
				if fnTop {
					d := i + 1
					for ; d < len(stmts); d++ {
						if f2, ok2 := t.deferredUnlock(stmts[d]); ok2 && f2 == f {
							break
						}
					}
					if d < len(stmts) {
						region := append(append([]ast.Stmt{}, stmts[i+1:d]...), stmts[d+1:]...)
						out = append(out, t.block(region, ctx, f, retOK, true)...) // still runs to the end of the function body
						i = len(stmts)
						continue
					}
				}
			}
			out = append(out, t.unknown(s, ctx, f))
			continue
		}
		ls := t.locs(s)
		if t.mentionsGvarBare(s) {
			out = append(out, t.unknown(s, ctx, "?"))
			continue
		}
		if len(ls) == 0 {
			// no shared access: pure local definitions, or an if over the arguments
			switch x := s.(type) {
			case *ast.AssignStmt:
				if len(x.Lhs) == 1 && len(x.Rhs) == 1 {
					if id, ok := x.Lhs[0].(*ast.Ident); ok {
						if v, ok := t.expr(x.Rhs[0]); ok {
							obj := t.p.TypesInfo.Defs[id]
							if obj == nil {
								obj = t.p.TypesInfo.Uses[id]
							}
							if obj != nil {
								t.env[obj] = v
								continue
							}
						}
					}
				}
			case *ast.EmptyStmt:
				continue
			}
		}
		if is, ok := s.(*ast.IfStmt); ok && is.Init == nil && !t.shared(is.Cond) {
			if c, ok := t.cond(is.Cond, nil); ok {
				// if c { ...; return } at the top level of a function body: the rest of the body runs only when c is false
				if n := len(is.Body.List); fnTop && is.Else == nil && n > 0 {
					if rs, isRet := is.Body.List[n-1].(*ast.ReturnStmt); isRet && len(rs.Results) == 0 {
						out = append(out, t.block(is.Body.List[:n-1], jand(ctx, c), locked, false, false)...)
						out = append(out, t.block(stmts[i+1:], jand(ctx, jnot(c)), locked, retOK, fnTop)...)
						return out
					}
				}
				out = append(out, t.block(is.Body.List, jand(ctx, c), locked, false, false)...)
				switch e := is.Else.(type) {
				case nil:
				case *ast.BlockStmt:
					out = append(out, t.block(e.List, jand(ctx, jnot(c)), locked, false, false)...)
				default:
					out = append(out, t.block([]ast.Stmt{e}, jand(ctx, jnot(c)), locked, false, false)...)
				}
				continue
			}
		}
		if len(ls) == 0 {
			if t.callsTouching(s) {
				// the state is touched inside a callee that is not called as a statement of its own
				out = append(out, t.unknown(s, ctx, "?"))
			}
			continue // a statement without shared effect (e.g. a discarded pure call)
		}
		if len(ls) > 1 {
			out = append(out, t.unknown(s, ctx, strings.Join(ls, "+")))
			continue
		}
		loc := ls[0]
		// single atomic add / store
		if es, ok := s.(*ast.ExprStmt); ok {
			if op, f, args, ok := t.atomicCall(es.X); ok && (op == "add" || op == "store") && len(args) == 1 {
				if v, ok := t.expr(args[0]); ok {
					out = append(out, MSection{Cond: ctx, Loc: f, Kind: op, Expr: v, Locked: locked, Pos: t.pos(s)})
					continue
				}
			}
		}
		// plain statement under the struct's mutex: the critical section is one atomic step
		if locked != "" {
			if sec, ok := t.plainUpdate(s, ctx, loc); ok {
				sec.Locked = locked
				out = append(out, sec)
				continue
			}
			out = append(out, t.unknown(s, ctx, loc))
			continue
		}
		// read-modify-write group on loc: this statement and the following ones that touch only loc
		j := i + 1
		for ; j < len(stmts); j++ {
			l2 := t.locs(stmts[j])
			if len(l2) != 1 || l2[0] != loc || t.mentionsGvarBare(stmts[j]) {
				break
			}
			if _, _, isLock := t.lockCall(stmts[j]); isLock {
				break
			}
			if !t.usesLocalOf(stmts[j], stmts[i:j]) {
				break
			}
		}
		out = append(out, t.rmw(stmts[i:j], ctx, loc, retOK && j == len(stmts)))
		i = j - 1
	}
	return out
}

// escapesControl: s is, or contains outside a function literal and outside the statements the translator compiles
// itself (loops and conditionals around atomic operations), a return / goto / labelled branch / go / defer / panic
func escapesControl(s ast.Stmt) bool {
	switch x := s.(type) {
	case *ast.ReturnStmt, *ast.GoStmt, *ast.DeferStmt, *ast.LabeledStmt:
		return true
	case *ast.BranchStmt:
		return true
	case *ast.ExprStmt:
		if call, ok := x.X.(*ast.CallExpr); ok {
			if id, ok := call.Fun.(*ast.Ident); ok && id.Name == "panic" {
				return true
			}
		}
	case *ast.IfStmt:
		if x.Init != nil && escapesControl(x.Init) {
			return true
		}
		for _, b := range x.Body.List {
			if escapesControl(b) {
				return true
			}
		}
		if x.Else != nil {
			return escapesControl(x.Else)
		}
	case *ast.BlockStmt:
		for _, b := range x.List {
			if escapesControl(b) {
				return true
			}
		}
	}
	return false
}

// usesLocalOf: s mentions a local variable defined in one of the earlier statements
func (t *mtr) usesLocalOf(s ast.Stmt, earlier []ast.Stmt) bool {
	defs := map[types.Object]bool{}
	for _, e := range earlier {
		ast.Inspect(e, func(x ast.Node) bool {
			if id, ok := x.(*ast.Ident); ok {
				if o := t.p.TypesInfo.Defs[id]; o != nil {
					defs[o] = true
				}
			}
			return true
		})
	}
	found := false
	ast.Inspect(s, func(x ast.Node) bool {
		if id, ok := x.(*ast.Ident); ok && defs[t.p.TypesInfo.Uses[id]] {
			found = true
		}
		return true
	})
	return found
}

// plainUpdate: g.F++ / g.F-- / g.F += e / g.F = e / g.M[k]++ / g.M[k] += e   (non-atomic statement)
func (t *mtr) plainUpdate(s ast.Stmt, ctx interface{}, loc string) (MSection, bool) {
	switch x := s.(type) {
	case *ast.IncDecStmt:
		if f, ok := t.fieldOf(x.X); ok && f == loc {
			d := int64(1)
			if x.Tok == token.DEC {
				d = -1
			}
			return MSection{Cond: ctx, Loc: loc, Kind: "add", Expr: jconst(d), Pos: t.pos(s)}, true
		}
	case *ast.AssignStmt:
		if len(x.Lhs) == 1 && len(x.Rhs) == 1 {
			if f, ok := t.fieldOf(x.Lhs[0]); ok && f == loc && len(t.locs(x.Rhs[0])) == 0 {
				if v, ok := t.expr(x.Rhs[0]); ok {
					switch x.Tok {
					case token.ADD_ASSIGN:
						return MSection{Cond: ctx, Loc: loc, Kind: "add", Expr: v, Pos: t.pos(s)}, true
					case token.ASSIGN:
						if _, isIdx := ast.Unparen(x.Lhs[0]).(*ast.IndexExpr); !isIdx {
							return MSection{Cond: ctx, Loc: loc, Kind: "store", Expr: v, Pos: t.pos(s)}, true
						}
					}
				}
			}
		}
	}
	return MSection{}, false
}

// ---- rmw compiler ----

type rmwc struct {
	t      *mtr
	loc    string
	ins    []J
	labels map[int]int // label -> pc
	nlab   int
	plain  bool
	bad    bool
	mut    map[types.Object]bool // locals assigned more than once: kept in registers (set)
	retLab int                   // where `return` goes (0: not allowed here)
}

func (c *rmwc) emit(j J)      { c.ins = append(c.ins, j) }
func (c *rmwc) newLabel() int { c.nlab++; return c.nlab }
func (c *rmwc) place(l int)   { c.labels[l] = len(c.ins) }
func (c *rmwc) newReg() int   { r := c.t.nregs; c.t.nregs++; return r }
func (c *rmwc) regOf(id *ast.Ident) int {
	obj := c.t.p.TypesInfo.Defs[id]
	if obj == nil {
		obj = c.t.p.TypesInfo.Uses[id]
	}
	if r, ok := c.t.regs[obj]; ok {
		return r
	}
	r := c.newReg()
	c.t.regs[obj] = r
	return r
}

// value: an expression that may be an atomic load / cas (emitted into a fresh register) or a plain read
func (c *rmwc) value(e ast.Expr, into int) (interface{}, bool) {
	e = ast.Unparen(e)
	if op, f, args, ok := c.t.atomicCall(e); ok {
		if f != c.loc {
			return nil, false
		}
		switch op {
		case "load":
			r := into
			if r < 0 {
				r = c.newReg()
			}
			c.emit(J{"op": "load", "r": r})
			return J{"reg": r}, true
		case "cas":
			if len(args) != 2 {
				return nil, false
			}
			o, ok1 := c.t.expr(args[0])
			n, ok2 := c.t.expr(args[1])
			if !ok1 || !ok2 {
				return nil, false
			}
			r := into
			if r < 0 {
				r = c.newReg()
			}
			c.emit(J{"op": "cas", "r": r, "old": o, "new": n})
			return J{"reg": r}, true
		}
		return nil, false
	}
	if f, ok := c.t.fieldOf(e); ok && f == c.loc {
		if isValueForm(e) {
			// plain (non-atomic) read of the field
			c.plain = true
			r := into
			if r < 0 {
				r = c.newReg()
			}
			c.emit(J{"op": "load", "r": r})
			return J{"reg": r}, true
		}
		return nil, false
	}
	if be, ok := e.(*ast.BinaryExpr); ok && be.Op == token.ADD && len(c.t.locs(be)) > 0 {
		a, ok1 := c.value(be.X, -1)
		b, ok2 := c.value(be.Y, -1)
		if ok1 && ok2 {
			return J{"add": []interface{}{a, b}}, true
		}
		return nil, false
	}
	if cx, ok := e.(*ast.CallExpr); ok && len(cx.Args) == 1 {
		if tv, ok := c.t.p.TypesInfo.Types[cx.Fun]; ok && tv.IsType() {
			return c.value(cx.Args[0], into)
		}
	}
	if len(c.t.locs(e)) > 0 {
		return nil, false
	}
	return c.t.expr(e)
}

func (c *rmwc) condOf(e ast.Expr) (interface{}, bool) {
	return c.t.cond(e, func(x ast.Expr) (interface{}, bool) {
		if len(c.t.locs(x)) == 0 {
			return nil, false
		}
		return c.value(x, -1)
	})
}

// jumpCond: code that jumps to target iff e evaluates to onTrue and falls through otherwise.  `&&` / `||` whose right
// operands touch the shared state are compiled to control flow: the right operand (an atomic call) is executed only
// when the left one does not decide — Go's short-circuit evaluation.  Only a pure `&&` / `||` (evaluating it eagerly
// is unobservable) stays one condition; atomic calls in the operands of a comparison are hoisted in evaluation order
// (cond refuses to hoist anything out of an operand of `&&` / `||`).
func (c *rmwc) jumpCond(e ast.Expr, onTrue bool, target int) {
	e = ast.Unparen(e)
	if u, ok := e.(*ast.UnaryExpr); ok && u.Op == token.NOT {
		c.jumpCond(u.X, !onTrue, target)
		return
	}
	if b, ok := e.(*ast.BinaryExpr); ok && (b.Op == token.LAND || b.Op == token.LOR) && c.t.shared(b) {
		if (b.Op == token.LAND) == onTrue {
			// a && b reached with "jump if true" (a || b with "jump if false"): the left operand alone decides against
			skip := c.newLabel()
			c.jumpCond(b.X, !onTrue, skip)
			c.jumpCond(b.Y, onTrue, target)
			c.place(skip)
		} else {
			c.jumpCond(b.X, onTrue, target)
			c.jumpCond(b.Y, onTrue, target)
		}
		return
	}
	cd, ok := c.condOf(e)
	if !ok {
		c.bad = true
		return
	}
	if !onTrue {
		cd = jnot(cd)
	}
	c.emit(J{"op": "jmpif", "c": cd, "label": target})
}

type loopCtx struct{ start, exit int }

func (c *rmwc) stmts(ss []ast.Stmt, lp *loopCtx) {
	for _, s := range ss {
		c.stmt(s, lp)
	}
}

func isBreak(b *ast.BlockStmt) bool {
	if len(b.List) != 1 {
		return false
	}
	br, ok := b.List[0].(*ast.BranchStmt)
	return ok && br.Tok == token.BREAK && br.Label == nil
}

func (c *rmwc) stmt(s ast.Stmt, lp *loopCtx) {
	switch x := s.(type) {
	case *ast.EmptyStmt:
	case *ast.BlockStmt:
		c.stmts(x.List, lp)
	case *ast.AssignStmt:
		if len(x.Lhs) == 1 && len(x.Rhs) == 1 {
			if id, ok := x.Lhs[0].(*ast.Ident); ok && (x.Tok == token.DEFINE || x.Tok == token.ASSIGN) {
				if !c.t.shared(x.Rhs[0]) {
					if v, ok := c.t.expr(x.Rhs[0]); ok {
						obj := c.t.p.TypesInfo.Defs[id]
						if obj == nil {
							obj = c.t.p.TypesInfo.Uses[id]
						}
						if c.mut[obj] {
							c.emit(J{"op": "set", "r": c.regOf(id), "e": v})
							return
						}
						if _, isReg := c.t.regs[obj]; !isReg {
							c.t.env[obj] = v
							return
						}
					}
					c.bad = true
					return
				}
				r := c.regOf(id)
				if v, ok := c.value(x.Rhs[0], r); ok {
					if m, _ := v.(J); m == nil || m["reg"] != r {
						c.bad = true // a computed value into a local: not supported
					}
					return
				}
				c.bad = true
				return
			}
			// plain write of the field:  g.F = e   /  g.F += e
			if f, ok := c.t.fieldOf(x.Lhs[0]); ok && f == c.loc {
				if isValueForm(x.Lhs[0]) {
					c.plain = true
					switch x.Tok {
					case token.ASSIGN:
						if v, ok := c.value(x.Rhs[0], -1); ok {
							c.emit(J{"op": "store", "e": v})
							return
						}
					case token.ADD_ASSIGN:
						if v, ok := c.value(x.Rhs[0], -1); ok {
							r := c.newReg()
							c.emit(J{"op": "load", "r": r})
							c.emit(J{"op": "store", "e": J{"add": []interface{}{J{"reg": r}, v}}})
							return
						}
					}
				}
			}
		}
		c.bad = true
	case *ast.IncDecStmt:
		if f, ok := c.t.fieldOf(x.X); ok && f == c.loc {
			if isValueForm(x.X) {
				c.plain = true
				d := int64(1)
				if x.Tok == token.DEC {
					d = -1
				}
				r := c.newReg()
				c.emit(J{"op": "load", "r": r})
				c.emit(J{"op": "store", "e": J{"add": []interface{}{J{"reg": r}, jconst(d)}}})
				return
			}
		}
		c.bad = true
	case *ast.ExprStmt:
		if op, f, args, ok := c.t.atomicCall(x.X); ok && f == c.loc {
			switch op {
			case "store", "add":
				if len(args) == 1 {
					if v, ok := c.value(args[0], -1); ok {
						c.emit(J{"op": op, "e": v})
						return
					}
				}
			case "cas", "load":
				if _, ok := c.value(x.X, -1); ok {
					return
				}
			}
		}
		c.bad = true
	case *ast.IfStmt:
		if x.Init != nil {
			c.stmt(x.Init, lp)
		}
		if lp != nil && x.Else == nil && isBreak(x.Body) {
			c.jumpCond(x.Cond, true, lp.exit)
			return
		}
		lelse, lend := c.newLabel(), c.newLabel()
		c.jumpCond(x.Cond, false, lelse)
		c.stmts(x.Body.List, lp)
		if x.Else != nil {
			c.emit(J{"op": "jmp", "label": lend})
		}
		c.place(lelse)
		if x.Else != nil {
			c.stmt(x.Else, lp)
		}
		c.place(lend)
	case *ast.ForStmt:
		if x.Init != nil || x.Post != nil {
			c.bad = true
			return
		}
		l := &loopCtx{start: c.newLabel(), exit: c.newLabel()}
		c.place(l.start)
		if x.Cond != nil {
			c.jumpCond(x.Cond, false, l.exit)
		}
		c.stmts(x.Body.List, l)
		c.emit(J{"op": "jmp", "label": l.start})
		c.place(l.exit)
	case *ast.BranchStmt:
		if lp != nil && x.Label == nil && x.Tok == token.BREAK {
			c.emit(J{"op": "jmp", "label": lp.exit})
			return
		}
		if lp != nil && x.Label == nil && x.Tok == token.CONTINUE {
			c.emit(J{"op": "jmp", "label": lp.start})
			return
		}
		c.bad = true
	case *ast.ReturnStmt:
		// inside an inlined callee whose body ends with this group: the callee is over
		if c.retLab != 0 && len(x.Results) == 0 {
			c.emit(J{"op": "jmp", "label": c.retLab})
			return
		}
		c.bad = true
	default:
		c.bad = true
	}
}

// mutableLocals: locals that are assigned (not only defined) inside ss
func (t *mtr) mutableLocals(ss []ast.Stmt) map[types.Object]bool {
	mut := map[types.Object]bool{}
	for _, s := range ss {
		ast.Inspect(s, func(x ast.Node) bool {
			if as, ok := x.(*ast.AssignStmt); ok && as.Tok != token.DEFINE {
				for _, l := range as.Lhs {
					if id, ok := l.(*ast.Ident); ok {
						if o, _ := t.p.TypesInfo.Uses[id].(*types.Var); o != nil && !o.IsField() && o.Parent() != t.p.Types.Scope() {
							mut[o] = true
						}
					}
				}
			}
			return true
		})
	}
	return mut
}

func (t *mtr) rmw(ss []ast.Stmt, ctx interface{}, loc string, allowRet bool) MSection {
	saveRegs, saveN := t.regs, t.nregs
	t.regs, t.nregs = map[types.Object]int{}, 0
	defer func() { t.regs, t.nregs = saveRegs, saveN }()
	c := &rmwc{t: t, loc: loc, labels: map[int]int{}, mut: t.mutableLocals(ss)}
	// a mutable local defined before the group (done := false) enters with its value
	var pre []types.Object
	for o := range c.mut {
		if _, isParam := t.params[o]; isParam {
			c.bad = true
		}
		if _, ok := t.env[o]; ok {
			pre = append(pre, o)
		}
	}
	sort.Slice(pre, func(i, j int) bool { return pre[i].Pos() < pre[j].Pos() })
	for _, o := range pre {
		r := c.newReg()
		t.regs[o] = r
		c.emit(J{"op": "set", "r": r, "e": t.env[o]})
	}
	if allowRet {
		c.retLab = c.newLabel()
	}
	c.stmts(ss, nil)
	if allowRet {
		c.place(c.retLab)
	}
	c.emit(J{"op": "ret"})
	if c.bad {
		return t.unknown(ss[0], ctx, loc)
	}
	for _, in := range c.ins {
		if l, ok := in["label"]; ok {
			pc, placed := c.labels[l.(int)]
			if !placed {
				return t.unknown(ss[0], ctx, loc)
			}
			in["t"] = pc
			delete(in, "label")
		}
	}
	return MSection{Cond: ctx, Loc: loc, Kind: "rmw", Instrs: c.ins, Plain: c.plain, Pos: t.pos(ss[0])}
}
