package main

// poscost: where the source-position conversion of the tokenizer lives (C20, tie of Model/Cost.v to the code: the
// measured loop-body executions of the conversion must respect the bound of C20_position_work_linear).  The function is
// found by its ROLE, not by its name:
//
//	hook   the static callees (inside the package) of the verification hook through which the harness asks the real
//	       conversion (the method of *Tokenizer in a verif_hooks*.go file that returns a models.Location: `vh locq` calls
//	       it as VerifLoc) that return a models.Location themselves
//	role   the methods of *Tokenizer that take at least one argument, return a models.Location and (transitively, through
//	       static callees and closures of the package) read the line-start table, i.e. the []int field of Tokenizer
//
// The roots are the functions that play the role (today one function, which is also what the hook calls); only when no
// function plays the role are the hook's callees taken.  Reported: the roots and every function of the package they
// reach through static calls, closures included (a helper extracted from the conversion is still part of it), each
// with its file, line range and the line ranges of its loop bodies (go/ast).
import (
	"go/ast"
	"go/types"
	"path/filepath"
	"sort"
	"strings"

	"golang.org/x/tools/go/packages"
	"golang.org/x/tools/go/ssa"
)

type PosFn struct {
	Name  string   `json:"name"`
	File  string   `json:"file"` // relative to the repository root
	Start int      `json:"start"`
	End   int      `json:"end"`
	Loops [][2]int `json:"loops"` // (line of the opening brace, line of the closing brace) of every for / range body
	Root  bool     `json:"root"`
}

type PosCost struct {
	Hook  string   `json:"hook"`  // the hook the harness calls, "" when absent
	Roots []string `json:"roots"` // the conversion function(s)
	Via   []string `json:"via"`   // per root: "hook", "role" or "hook+role"
	Funcs []PosFn  `json:"funcs"`
	Notes []string `json:"notes"`
}

func isModelsLocation(t types.Type) bool {
	n, ok := t.(*types.Named)
	return ok && n.Obj().Name() == "Location" && n.Obj().Pkg() != nil && n.Obj().Pkg().Name() == "models"
}

func posCost(prog *ssa.Program, p *packages.Package, repo string) *PosCost {
	res := &PosCost{}
	pkg := prog.Package(p.Types)
	obj, ok := p.Types.Scope().Lookup("Tokenizer").(*types.TypeName)
	if !ok || pkg == nil {
		res.Notes = append(res.Notes, "type Tokenizer not found")
		return res
	}
	named, _ := obj.Type().(*types.Named)
	st, ok := named.Underlying().(*types.Struct)
	if !ok {
		res.Notes = append(res.Notes, "Tokenizer is not a struct")
		return res
	}
	isT := func(t types.Type) bool {
		pt, ok := t.Underlying().(*types.Pointer)
		if !ok {
			return false
		}
		n, ok := pt.Elem().(*types.Named)
		return ok && n.Obj() == obj
	}
	// the line table: the []int field(s)
	table := map[int]bool{}
	for i := 0; i < st.NumFields(); i++ {
		if sl, ok := st.Field(i).Type().Underlying().(*types.Slice); ok {
			if b, ok := sl.Elem().Underlying().(*types.Basic); ok && b.Kind() == types.Int {
				table[i] = true
			}
		}
	}
	// functions of the package (methods, closures)
	var fns []*ssa.Function
	seen := map[*ssa.Function]bool{}
	var add func(f *ssa.Function)
	add = func(f *ssa.Function) {
		if f == nil || seen[f] || len(f.Blocks) == 0 {
			return
		}
		seen[f] = true
		fns = append(fns, f)
		for _, an := range f.AnonFuncs {
			add(an)
		}
	}
	for _, m := range pkg.Members {
		if f, ok := m.(*ssa.Function); ok {
			add(f)
		}
		if t, ok := m.(*ssa.Type); ok {
			for _, ty := range []types.Type{t.Type(), types.NewPointer(t.Type())} {
				ms := prog.MethodSets.MethodSet(ty)
				for i := 0; i < ms.Len(); i++ {
					if f := prog.MethodValue(ms.At(i)); f != nil && f.Pkg == pkg {
						add(f)
					}
				}
			}
		}
	}
	sort.Slice(fns, func(i, j int) bool { return fns[i].String() < fns[j].String() })
	// static successors inside the package: callees, closures made
	succ := func(f *ssa.Function) []*ssa.Function {
		var out []*ssa.Function
		for _, b := range f.Blocks {
			for _, ins := range b.Instrs {
				if ci, ok := ins.(ssa.CallInstruction); ok {
					if sc := ci.Common().StaticCallee(); sc != nil && seen[sc] {
						out = append(out, sc)
					}
				}
				if mc, ok := ins.(*ssa.MakeClosure); ok {
					if g, ok := mc.Fn.(*ssa.Function); ok && seen[g] {
						out = append(out, g)
					}
				}
			}
		}
		return out
	}
	reach := func(roots []*ssa.Function) []*ssa.Function {
		in := map[*ssa.Function]bool{}
		var order []*ssa.Function
		var dfs func(f *ssa.Function)
		dfs = func(f *ssa.Function) {
			if in[f] {
				return
			}
			in[f] = true
			order = append(order, f)
			for _, g := range succ(f) {
				dfs(g)
			}
		}
		for _, r := range roots {
			dfs(r)
		}
		return order
	}
	readsTable := func(f *ssa.Function) bool {
		for _, b := range f.Blocks {
			for _, ins := range b.Instrs {
				if fa, ok := ins.(*ssa.FieldAddr); ok && isT(fa.X.Type()) && table[fa.Field] {
					return true
				}
			}
		}
		return false
	}
	via := map[*ssa.Function]string{}
	// hook
	for _, f := range fns {
		// the hook: a method of *Tokenizer declared in a verif_hooks*.go file that returns a models.Location (the entry the
		// harness asks: `vh locq` calls VerifLoc)
		if f.Parent() != nil || f.Signature.Recv() == nil || !isT(f.Signature.Recv().Type()) ||
			f.Signature.Results().Len() != 1 || !isModelsLocation(f.Signature.Results().At(0).Type()) {
			continue
		}
		if !strings.HasPrefix(filepath.Base(prog.Fset.Position(f.Pos()).Filename), "verif_hooks") {
			continue
		}
		if res.Hook != "" {
			res.Hook += ", "
		}
		res.Hook += fnName(f)
		for _, g := range succ(f) {
			if g.Parent() == nil && g.Signature.Results().Len() == 1 && isModelsLocation(g.Signature.Results().At(0).Type()) {
				via[g] = "hook"
			}
		}
	}
	if res.Hook == "" {
		res.Notes = append(res.Notes, "no hook returning a models.Location in verif_hooks*.go: roots by role only")
	}
	// role
	for _, f := range fns {
		if f.Parent() != nil || f.Signature.Recv() == nil || !isT(f.Signature.Recv().Type()) {
			continue
		}
		if strings.HasPrefix(filepath.Base(prog.Fset.Position(f.Pos()).Filename), "verif_hooks") {
			continue
		}
		if f.Signature.Params().Len() == 0 || f.Signature.Results().Len() != 1 || !isModelsLocation(f.Signature.Results().At(0).Type()) {
			continue
		}
		reads := false
		for _, g := range reach([]*ssa.Function{f}) {
			if readsTable(g) {
				reads = true
			}
		}
		if !reads {
			continue
		}
		if via[f] == "hook" {
			via[f] = "hook+role"
		} else if via[f] == "" {
			via[f] = "role"
		}
	}
	// a callee of a hook that does not play the role (a second, table-free conversion kept for comparison) is not the
	// conversion the model is about, unless nothing plays the role at all
	anyRole := false
	for _, f := range fns {
		if strings.Contains(via[f], "role") {
			anyRole = true
		}
	}
	var roots []*ssa.Function
	for _, f := range fns {
		if via[f] == "hook" && anyRole {
			res.Notes = append(res.Notes, fnName(f)+": reached from a hook, does not read the line table: not part of the conversion")
			continue
		}
		if via[f] != "" {
			roots = append(roots, f)
		}
	}
	// a root by role only that another root reaches (or that reaches one) is the same conversion: keep; one that is
	// unrelated to the hook's conversion is reported in the notes (and still measured)
	for _, r := range roots {
		res.Roots = append(res.Roots, fnName(r))
		res.Via = append(res.Via, via[r])
	}
	if len(roots) == 0 {
		res.Notes = append(res.Notes, "no position-conversion function found (neither a callee of the hook nor a method *Tokenizer -> models.Location reading the line table)")
		return res
	}
	isRoot := map[*ssa.Function]bool{}
	for _, r := range roots {
		isRoot[r] = true
	}
	for _, f := range reach(roots) {
		node := f.Syntax()
		if node == nil {
			continue
		}
		pf := PosFn{Name: fnName(f), Root: isRoot[f], Loops: [][2]int{}}
		if f.Parent() != nil {
			pf.Name = f.String()
		}
		sp, ep := prog.Fset.Position(node.Pos()), prog.Fset.Position(node.End())
		rel, err := filepath.Rel(repo, sp.Filename)
		if err != nil {
			rel = sp.Filename
		}
		pf.File, pf.Start, pf.End = filepath.ToSlash(rel), sp.Line, ep.Line
		ast.Inspect(node, func(n ast.Node) bool {
			var body *ast.BlockStmt
			switch x := n.(type) {
			case *ast.ForStmt:
				body = x.Body
			case *ast.RangeStmt:
				body = x.Body
			case *ast.FuncLit:
				if n != node {
					return false // a closure is a function of its own in this list
				}
			}
			if body != nil {
				pf.Loops = append(pf.Loops, [2]int{prog.Fset.Position(body.Lbrace).Line, prog.Fset.Position(body.Rbrace).Line})
			}
			return true
		})
		res.Funcs = append(res.Funcs, pf)
	}
	return res
}
