// passthru.go: builders of pkg/errors that hand back an *Error they were given.
//
//	func hinted(err *Error, expected, found string) *Error {
//		if hint := GenerateHint(err.Code, expected, found); hint != "" {
//			return err.WithHint(hint)
//		}
//		return err
//	}
//
// The summary of such a function (errsites.go: bsum.selfParam) says "the result is parameter i, possibly decorated
// by With...": its code is the code of the argument at the call, which chain / codeOfChain follow.  The summary is
// only given when nothing in the function can set the code of the parameter (paramCodeStable): otherwise the
// builder stays without a summary and its call sites stay without a code, which the checks report.
package main

import (
	"go/token"
	"go/types"

	"golang.org/x/tools/go/ssa"
)

// isErrPtr: *errors.Error
func (s *efState) isErrPtr(t types.Type) bool {
	pt, ok := t.(*types.Pointer)
	if !ok || s.errType == nil {
		return false
	}
	nt, ok := pt.Elem().(*types.Named)
	return ok && nt.Obj() == s.errType.Obj()
}

// paramCodeStable: every use of the *Error parameter p inside fn leaves its Code as it is: loads of its fields,
// stores into fields other than Code, nil tests, the decorating methods (WithContext / WithHint / WithCause, or a
// method / builder of pkg/errors whose own summary is a pass-through of that argument), returning it.  Any other
// use (handed to another function, stored somewhere, its Code field written or its address taken) and the answer is no.
func (s *efState) paramCodeStable(fn *ssa.Function, p *ssa.Parameter) bool {
	refs := p.Referrers()
	if refs == nil {
		return true
	}
	for _, ref := range *refs {
		switch x := ref.(type) {
		case *ssa.DebugRef, *ssa.Return, *ssa.Phi, *ssa.MakeInterface:
			// a phi / conversion of the parameter is the same pointer; what is done through it is not seen here, so
			// only results are allowed to go that way: the phi may be used by returns, conversions and phis alone
			if v, ok := ref.(ssa.Value); ok && !onlyReturned(v, map[ssa.Value]bool{}) {
				return false
			}
		case *ssa.BinOp:
			if x.Op != token.EQL && x.Op != token.NEQ {
				return false
			}
		case *ssa.FieldAddr:
			st, _ := deref(x.X.Type()).Underlying().(*types.Struct)
			if st == nil || x.Field >= st.NumFields() {
				return false
			}
			isCode := st.Field(x.Field).Name() == "Code"
			if x.Referrers() == nil {
				continue
			}
			for _, r2 := range *x.Referrers() {
				switch y := r2.(type) {
				case *ssa.DebugRef:
				case *ssa.UnOp:
					if y.Op != token.MUL {
						return false
					}
				case *ssa.Store:
					if y.Addr != ssa.Value(x) || isCode {
						return false // the field address itself stored somewhere, or Code written
					}
				default:
					return false // address of a field handed on
				}
			}
		case *ssa.Call:
			c := x.Common()
			callee := staticCallee(c)
			if c.IsInvoke() || callee == nil || callee.Pkg != s.errPkg {
				return false
			}
			ai := -1
			for i, a := range c.Args {
				if a == ssa.Value(p) {
					if ai >= 0 {
						return false
					}
					ai = i
				}
			}
			if ai < 0 {
				return false
			}
			if callee.Signature.Recv() != nil && ai == 0 {
				switch callee.Name() {
				case "WithContext", "WithHint", "WithCause":
					continue
				}
			}
			if sub := s.summary(callee); callee != fn && sub.ok && sub.selfParam == ai {
				continue
			}
			return false
		default:
			return false
		}
	}
	return true
}

// onlyReturned: the value goes nowhere but into results (through phis and interface conversions)
func onlyReturned(v ssa.Value, seen map[ssa.Value]bool) bool {
	if seen[v] {
		return true
	}
	seen[v] = true
	refs := v.Referrers()
	if refs == nil {
		return true
	}
	for _, ref := range *refs {
		switch x := ref.(type) {
		case *ssa.DebugRef, *ssa.Return:
		case *ssa.Phi:
			if !onlyReturned(x, seen) {
				return false
			}
		case *ssa.MakeInterface:
			if !onlyReturned(x, seen) {
				return false
			}
		default:
			return false
		}
	}
	return true
}

// dfsPassThrough: a call of a builder / method of pkg/errors whose summary is "my *Error argument i, decorated":
// without a cause the value is the argument's (as for WithContext / WithHint); with a cause parameter the call is
// a cause node of its own (as for WithCause).  false when the callee has no such summary.
func (s *efState) dfsPassThrough(call *ssa.Call, callee *ssa.Function, seen map[ssa.Value]bool, set map[*EFNode]bool) bool {
	c := call.Common()
	sub := s.summary(callee)
	if !sub.ok || sub.selfParam < 0 || sub.selfParam >= len(c.Args) {
		return false
	}
	if sub.causeParam < 0 || sub.causeParam >= len(c.Args) {
		s.dfsErrPtr(c.Args[sub.selfParam], seen, set)
		return true
	}
	n := s.newNode(call, "cause", call.Parent(), call.Pos())
	n.Callee = callee.Name()
	set[n] = true
	return true
}

// causeAttacher: (index of the *Error argument, index of the cause argument) when the callee of pkg/errors returns
// that *Error with that cause attached: WithCause itself, or a pass-through builder with a cause parameter
func (s *efState) causeAttacher(callee *ssa.Function, nargs int) (selfIdx, causeIdx int) {
	if callee == nil || callee.Pkg == nil || callee.Pkg != s.errPkg {
		return -1, -1
	}
	if callee.Signature.Recv() != nil && callee.Name() == "WithCause" && nargs >= 2 {
		return 0, 1
	}
	if callee.Name() == "NewError" {
		return -1, -1
	}
	if sub := s.summary(callee); sub.ok && sub.selfParam >= 0 && sub.causeParam >= 0 && sub.selfParam < nargs && sub.causeParam < nargs {
		return sub.selfParam, sub.causeParam
	}
	return -1, -1
}
