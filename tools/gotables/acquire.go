// acquire.go: the ACQUISITION table of the mutexes reachable from package-level state (C10, deadlock freedom by
// lock discipline).
//
// One row per static Lock / RLock call site on a mutex cell: the mutex, the mode (W / R) and the set of mutexes
// that MAY be held when the call is made.  The lock discipline (coq/theories/Model/LockOrder.v) needs a SUPERSET
// of what can be held, so this is a forward MAY-analysis of its own (the must-held sets of accesses.go, which the
// race-freedom table uses, are a subset and are left unchanged):
//   - union at joins; a Lock/RLock adds the cell, an Unlock/RUnlock removes it (strong update only for a cell that
//     names one object: a cell reached through an index / map element / phi stands for several objects and is
//     never removed);
//   - `defer m.Unlock()` keeps the lock until the function returns; it is released at the return only if the defer
//     was certainly executed (must-set of deferred unlocks, intersection at joins); the same for a certainly
//     registered deferred library function / function literal that certainly releases it (`defer func() { m.Unlock() }()`);
//   - a call of a library function is followed with the parameter -> cell bindings and the may-held set of the call
//     site (context-sensitively, exactly like the must analysis), and what the callee still holds when it returns
//     is held by the caller afterwards (a lock helper that returns with the lock taken);
//   - `go f()` starts with nothing held; callbacks handed to external functions (Once.Do, sort.Slice, ...) and
//     deferred calls run with what may be held at that point (deferred calls: with everything that may be held at
//     the return, before any deferred unlock);
//   - TryLock never waits: no row, but the lock may be held afterwards.
//
// Calls that cannot be followed (function values, interface methods) while something may be held are listed in
// acq_notes: what they acquire is not in the table.
package main

import (
	"fmt"
	"go/token"
	"sort"
	"strings"

	"golang.org/x/tools/go/ssa"
)

type AcqSite struct {
	Cell    string   `json:"cell"`
	Mode    string   `json:"mode"`     // W | R
	MayHeld []string `json:"may_held"` // "cell:W" / "cell:R" / "cell:RW"
	Func    string   `json:"func"`
	Pos     string   `json:"pos"`
	Entries []string `json:"entries"` // (some of) the entry points from which the site is reached with these locks
}

// LockExit: what an entry point of the library (exported function / method, function used as a value) may still hold
// when it returns to its caller — code outside the library, which cannot release it.  One row per entry point whose
// analysis touched a mutex at all; Held is empty unless some return path (panics excluded) leaves with a mutex that
// was acquired on that path and for which no deferred unlock is certainly registered.  A private lock helper that
// returns with the lock taken is no entry point: what it holds is held by its callers, and it is their returns that count.
type LockExit struct {
	Func    string              `json:"func"`
	Held    []string            `json:"held"`    // "cell:mode"
	Returns map[string][]string `json:"returns"` // return position -> what may be held there
}

type mayState struct {
	held map[string]string // cell -> "R" | "W" | "RW"
	def  map[string]bool   // unlocks certainly deferred
	top  bool              // unreached
}

func mergeMode(a, b string) string {
	if a == "" {
		return b
	}
	if b == "" || a == b {
		return a
	}
	return "RW"
}

func joinMay(a, b mayState) mayState {
	if a.top {
		return mayState{held: copyHeld(b.held), def: copySet(b.def), top: b.top}
	}
	if b.top {
		return mayState{held: copyHeld(a.held), def: copySet(a.def)}
	}
	r := mayState{held: copyHeld(a.held), def: map[string]bool{}}
	for k, m := range b.held {
		r.held[k] = mergeMode(r.held[k], m)
	}
	for k := range a.def {
		if b.def[k] {
			r.def[k] = true
		}
	}
	return r
}

func sameMay(a, b mayState) bool {
	return a.top == b.top && heldList(a.held) == heldList(b.held) && setList(a.def) == setList(b.def)
}

type acqAn struct {
	an      *accAn
	rows    map[string]*AcqSite
	memo    map[string]map[string]string // context -> may-held at return
	busy    map[string]bool
	notes   map[string]bool
	depth   int
	entry   string
	summary map[string]bool                // cells that stand for several objects
	touched map[string]bool                // entry points whose analysis met a mutex operation
	retInfo map[string]map[string][]string // context -> return position -> may-held there (non-empty only)
}

// unlockOf: the call is a call of a func value that is the bound Unlock / RUnlock of one mutex cell (accesses.go unlockValue)
func (a *acqAn) unlockOf(cc *ssa.CallCommon, c *accCtx) (cell, method string, summary bool) {
	if cc.IsInvoke() || cc.StaticCallee() != nil {
		return "", "", false
	}
	return a.an.unlockValue(cc.Value, c, 0)
}

// deferKey: key of mayState.def for "this deferred call (not a plain unlock) was certainly registered"
func deferKey(d *ssa.Defer) string { return fmt.Sprintf("#defer %p", d) }

// summaryAddr: the address is reached through an index / map element / phi: the cell names several objects
func summaryAddr(v ssa.Value, depth int) bool {
	if depth > 12 || v == nil {
		return false
	}
	switch x := v.(type) {
	case *ssa.IndexAddr, *ssa.Index, *ssa.Lookup, *ssa.Phi:
		return true
	case *ssa.FieldAddr:
		return summaryAddr(x.X, depth+1)
	case *ssa.Field:
		return summaryAddr(x.X, depth+1)
	case *ssa.UnOp:
		if x.Op == token.MUL {
			return summaryAddr(x.X, depth+1)
		}
	case *ssa.ChangeType:
		return summaryAddr(x.X, depth+1)
	case *ssa.Extract:
		return true
	}
	return false
}

func (a *acqAn) ctxKey(f *ssa.Function, held map[string]string, bind map[ssa.Value]string, fns map[ssa.Value]fnBind) string {
	var b []string
	for v, fb := range fns {
		b = append(b, fmt.Sprintf("%s=func %p", v.Name(), fb.fn))
	}
	for v, cell := range bind {
		b = append(b, v.Name()+"="+cell)
	}
	sort.Strings(b)
	return fmt.Sprintf("%p|%s|%s", f, strings.Join(b, ","), heldList(held))
}

func (a *acqAn) row(f *ssa.Function, ins ssa.Instruction, cell, mode string, held map[string]string) {
	pos := a.an.posOf(ins)
	key := cell + "|" + mode + "|" + pos
	r := a.rows[key]
	if r == nil {
		r = &AcqSite{Cell: cell, Mode: mode, Func: fnName(rootFn(f)), Pos: pos}
		a.rows[key] = r
	}
	// may-held of a site = union over all the contexts it is reached in
	cur := map[string]string{}
	for _, h := range r.MayHeld {
		i := strings.LastIndex(h, ":")
		cur[h[:i]] = h[i+1:]
	}
	grew := false
	for k, m := range held {
		n := mergeMode(cur[k], m)
		if n != cur[k] {
			cur[k] = n
			grew = true
		}
	}
	if grew || len(r.Entries) == 0 {
		has := false
		for _, e := range r.Entries {
			if e == a.entry {
				has = true
			}
		}
		if !has && len(r.Entries) < 4 {
			r.Entries = append(r.Entries, a.entry)
		}
	}
	r.MayHeld = r.MayHeld[:0]
	for k, m := range cur {
		r.MayHeld = append(r.MayHeld, k+":"+m)
	}
	sort.Strings(r.MayHeld)
}

// analyze: may-held at the return of f when entered with `held` and the parameter bindings `bind`
func (a *acqAn) analyze(f *ssa.Function, held map[string]string, bind map[ssa.Value]string, fns map[ssa.Value]fnBind) map[string]string {
	if len(f.Blocks) == 0 {
		return held
	}
	key := a.ctxKey(f, held, bind, fns)
	if r, ok := a.memo[key]; ok {
		return r
	}
	if a.busy[key] || a.depth > 40 {
		if a.depth > 40 {
			a.notes["analysis depth limit reached in "+f.String()] = true
		}
		return held // recursion: assume the recursive call returns with what it was entered with
	}
	a.busy[key] = true
	a.depth++
	defer func() { a.depth--; delete(a.busy, key) }()

	c := &accCtx{held: map[string]string{}, after: map[string]bool{}, bind: bind, fns: fns}
	in := make([]mayState, len(f.Blocks))
	outS := make([]mayState, len(f.Blocks))
	for i := range in {
		in[i], outS[i] = mayState{top: true}, mayState{top: true}
	}
	in[0] = mayState{held: copyHeld(held), def: map[string]bool{}}
	exit := mayState{top: true}
	rets := map[string][]string{}
	var defers []*ssa.Defer
	for _, b := range f.Blocks {
		for _, ins := range b.Instrs {
			if d, ok := ins.(*ssa.Defer); ok {
				defers = append(defers, d)
			}
		}
	}
	transfer := func(b *ssa.BasicBlock, st mayState) mayState {
		h, def := copyHeld(st.held), copySet(st.def)
		for _, ins := range b.Instrs {
			switch x := ins.(type) {
			case *ssa.Defer:
				if m, ok := lockMethod(x.Common()); ok {
					if (m == "Unlock" || m == "RUnlock") && len(x.Common().Args) > 0 {
						if cell := a.an.cellOf(x.Common().Args[0], c, 0); cell != "" && !summaryAddr(x.Common().Args[0], 0) {
							def[cell] = true
						}
					}
				} else if cell, _, sum := a.unlockOf(x.Common(), c); cell != "" {
					// defer unlock() for unlock := g.guard(): a deferred Unlock of the cell
					if !sum {
						def[cell] = true
					}
				} else {
					def[deferKey(x)] = true // this deferred call certainly runs at the return
				}
			case *ssa.RunDefers:
				// deferred calls run with everything that may be held here (before any deferred unlock: a superset whatever
				// the order).  What a deferred call takes may be held afterwards; what a CERTAINLY registered deferred call
				// (defer func() { m.Unlock() }()) certainly releases — held when it starts, not in its may-held set when it
				// returns — is released like a certainly deferred m.Unlock(), unless another deferred call may take it.
				released, taken := map[string]bool{}, map[string]string{}
				for _, d := range defers {
					if _, ok := lockMethod(d.Common()); ok {
						continue
					}
					if cell, _, _ := a.unlockOf(d.Common(), c); cell != "" {
						continue
					}
					r := a.call(f, c, d, d.Common(), copyHeld(h))
					if r == nil {
						continue // not followed (noted by call), or nothing to follow
					}
					for k, m := range r {
						if h[k] == "" || mergeMode(h[k], m) != h[k] {
							taken[k] = mergeMode(taken[k], m)
						}
					}
					if def[deferKey(d)] {
						for k := range h {
							if _, still := r[k]; !still && !a.summary[k] {
								released[k] = true
							}
						}
					}
				}
				for cell := range def {
					delete(h, cell)
				}
				for cell := range released {
					delete(h, cell)
				}
				for k, m := range taken {
					h[k] = mergeMode(h[k], m)
				}
			case *ssa.Go:
				a.call(f, c, ins, x.Common(), map[string]string{})
			case *ssa.Call:
				cc := x.Common()
				if m, ok := lockMethod(cc); ok && len(cc.Args) > 0 {
					cell := a.an.cellOf(cc.Args[0], c, 0)
					if cell == "" {
						continue
					}
					if summaryAddr(cc.Args[0], 0) {
						a.summary[cell] = true
					}
					a.touched[a.entry] = true
					switch m {
					case "Lock":
						a.row(f, ins, cell, "W", h)
						h[cell] = mergeMode(h[cell], "W")
					case "RLock":
						a.row(f, ins, cell, "R", h)
						h[cell] = mergeMode(h[cell], "R")
					case "Try":
						mode := "W"
						if sc := cc.StaticCallee(); sc != nil && strings.Contains(sc.Name(), "RLock") {
							mode = "R"
						}
						h[cell] = mergeMode(h[cell], mode)
					case "Unlock", "RUnlock":
						if !a.summary[cell] {
							delete(h, cell)
						}
					}
					continue
				}
				if cell, _, sum := a.unlockOf(cc, c); cell != "" {
					// unlock() for unlock := g.guard(): the Unlock of the cell
					a.touched[a.entry] = true
					if sum {
						a.summary[cell] = true
					}
					if !a.summary[cell] {
						delete(h, cell)
					}
					continue
				}
				if r := a.call(f, c, ins, cc, h); r != nil {
					h = copyHeld(r)
				}
			case *ssa.Return:
				exit = joinMay(exit, mayState{held: copyHeld(h), def: map[string]bool{}})
				if len(h) > 0 {
					var hl []string
					for k, m := range h {
						hl = append(hl, k+":"+m)
					}
					sort.Strings(hl)
					rets[a.an.posOf(ins)] = hl
				} else {
					delete(rets, a.an.posOf(ins))
				}
			}
		}
		return mayState{held: h, def: def}
	}
	for iter := 0; iter < 30; iter++ {
		changed := false
		for i, b := range f.Blocks {
			if i > 0 {
				st := mayState{top: true}
				for _, p := range b.Preds {
					st = joinMay(st, outS[p.Index])
				}
				if !sameMay(st, in[i]) {
					in[i] = st
					changed = true
				}
			}
			if in[i].top {
				continue
			}
			o := transfer(b, in[i])
			if !sameMay(o, outS[i]) {
				outS[i] = o
				changed = true
			}
		}
		if !changed {
			break
		}
	}
	res := held
	if !exit.top {
		res = exit.held
	}
	a.memo[key] = res
	a.retInfo[key] = rets
	return res
}

// call: follow a call made with `held`; returns the may-held set after the call (nil: unchanged)
func (a *acqAn) call(f *ssa.Function, c *accCtx, ins ssa.Instruction, cc *ssa.CallCommon, held map[string]string) map[string]string {
	an := a.an
	note := func(what string) {
		if len(held) > 0 {
			a.notes[fmt.Sprintf("%s while %s may be held: %s (%s) — what it acquires is not in the table", what, heldList(held), fnName(rootFn(f)), an.posOf(ins))] = true
		}
	}
	if cc.IsInvoke() {
		note("interface method call " + cc.Method.Name())
		return nil
	}
	if _, ok := cc.Value.(*ssa.Builtin); ok {
		return nil
	}
	sc := cc.StaticCallee()
	if sc == nil {
		if fb, ok := c.fns[cc.Value]; ok {
			// a call of a func-typed parameter that was given a known function: it runs here, with what may be held here
			nb := map[ssa.Value]string{}
			for i, arg := range cc.Args {
				if i < len(fb.fn.Params) {
					if cell := an.cellOf(arg, c, 0); cell != "" {
						nb[fb.fn.Params[i]] = cell
					}
				}
			}
			if fb.val != nil {
				an.bindClosure(fb.val, fb.fn, fb.ctx, &accCtx{bind: nb})
			}
			return a.analyze(fb.fn, copyHeld(held), nb, map[ssa.Value]fnBind{})
		}
		note("call through a function value")
		return nil
	}
	_, isLibFn := an.libPkgs[sc.Pkg]
	if !isLibFn || len(sc.Blocks) == 0 {
		// external function: callbacks run with what may be held here
		for _, arg := range cc.Args {
			if fn := funcOf(arg); fn != nil && an.libPkgs[fn.Pkg] != "" {
				nb := map[ssa.Value]string{}
				nc := &accCtx{bind: nb}
				an.bindClosure(arg, fn, c, nc)
				a.analyze(fn, copyHeld(held), nb, map[ssa.Value]fnBind{})
			}
		}
		return nil
	}
	nb := map[ssa.Value]string{}
	nf := map[ssa.Value]fnBind{}
	for i, arg := range cc.Args {
		if i < len(sc.Params) {
			if cell := an.cellOf(arg, c, 0); cell != "" {
				nb[sc.Params[i]] = cell
			}
			if fn := funcOf(arg); fn != nil && an.libPkgs[fn.Pkg] != "" {
				nf[sc.Params[i]] = fnBind{fn: fn, val: arg, ctx: c}
			} else if fb, ok := c.fns[arg]; ok {
				nf[sc.Params[i]] = fb
			}
		}
	}
	if mc, ok := cc.Value.(*ssa.MakeClosure); ok {
		nc := &accCtx{bind: nb}
		an.bindClosure(mc, sc, c, nc)
	}
	if _, isGo := ins.(*ssa.Go); isGo {
		a.analyze(sc, map[string]string{}, nb, nf)
		return nil
	}
	if _, isDefer := ins.(*ssa.Defer); isDefer {
		return a.analyze(sc, copyHeld(held), nb, nf) // the caller (RunDefers) decides what of it survives the return
	}
	return a.analyze(sc, copyHeld(held), nb, nf)
}

// acquisitions: the table, from the same entry points as the access table
func (an *accAn) acquisitions(roots []*ssa.Function, out *Out) {
	a := &acqAn{an: an, rows: map[string]*AcqSite{}, memo: map[string]map[string]string{}, busy: map[string]bool{}, notes: map[string]bool{}, summary: map[string]bool{},
		touched: map[string]bool{}, retInfo: map[string]map[string][]string{}}
	out.LockExits = []LockExit{}
	for _, f := range roots {
		a.entry = fnName(f)
		held := a.analyze(f, map[string]string{}, map[ssa.Value]string{}, map[ssa.Value]fnBind{})
		name := f.Name()
		if name == "init" || strings.HasPrefix(name, "init#") {
			continue // package initialisation returns to the runtime once, before any goroutine of the caller exists
		}
		if !a.touched[a.entry] && len(held) == 0 {
			continue
		}
		le := LockExit{Func: an.libPkgs[f.Pkg] + "." + a.entry, Held: []string{}, Returns: map[string][]string{}}
		for k, m := range held {
			le.Held = append(le.Held, k+":"+m)
		}
		sort.Strings(le.Held)
		for pos, hl := range a.retInfo[a.ctxKey(f, map[string]string{}, map[ssa.Value]string{}, map[ssa.Value]fnBind{})] {
			le.Returns[pos] = hl
		}
		out.LockExits = append(out.LockExits, le)
	}
	sort.Slice(out.LockExits, func(i, j int) bool { return out.LockExits[i].Func < out.LockExits[j].Func })
	out.Acquisitions = []AcqSite{}
	for _, r := range a.rows {
		if r.MayHeld == nil {
			r.MayHeld = []string{}
		}
		out.Acquisitions = append(out.Acquisitions, *r)
	}
	sort.Slice(out.Acquisitions, func(i, j int) bool {
		x, y := out.Acquisitions[i], out.Acquisitions[j]
		if x.Cell != y.Cell {
			return x.Cell < y.Cell
		}
		if x.Pos != y.Pos {
			return x.Pos < y.Pos
		}
		return x.Mode < y.Mode
	})
	for n := range a.notes {
		out.AcqNotes = append(out.AcqNotes, n)
	}
	sort.Strings(out.AcqNotes)
}
