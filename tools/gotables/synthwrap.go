// synthwrap.go: the synthetic functions go/ssa makes around methods, and how the tables look through them.
//
//	wrapper for func (T).m      (*T).m for a value-receiver method (T).m, or the promotion of a method of an embedded
//	                            field: loads / selects the receiver and calls the method with its own parameters
//	bound method wrapper ...    the closure behind a method value x.m
//	thunk for ...               the function behind a method expression T.m
//
// None of them belongs to a package (Function.Pkg == nil), none has a position of its own.  The tables never
// describe a wrapper: a wrapper is transparent, what enters it enters the method it wraps.
package main

import (
	"go/types"
	"strings"

	"golang.org/x/tools/go/callgraph"
	"golang.org/x/tools/go/ssa"
)

// typesPkgOf: the package a function belongs to, also for synthetic functions (Pkg == nil): the package of the
// method they wrap / of their receiver's named type / of their parent
func typesPkgOf(f *ssa.Function) *types.Package {
	for depth := 0; f != nil && depth < 8; depth++ {
		if f.Pkg != nil {
			return f.Pkg.Pkg
		}
		if o := f.Object(); o != nil && o.Pkg() != nil {
			return o.Pkg()
		}
		if recv := f.Signature.Recv(); recv != nil {
			if nt, ok := deref(recv.Type()).(*types.Named); ok && nt.Obj().Pkg() != nil {
				return nt.Obj().Pkg()
			}
		}
		if w := wrappedMethod(f); w != f {
			f = w
			continue
		}
		f = f.Parent()
	}
	return nil
}

// wrappedMethod: the declared method (or function) behind any nesting of synthetic wrappers; fn itself when it
// is not a wrapper
func wrappedMethod(fn *ssa.Function) *ssa.Function {
	for i := 0; fn != nil && i < 4; i++ {
		g := unwrapSynthetic(fn)
		if g == fn || g == nil {
			break
		}
		fn = g
	}
	return fn
}

// isRecvWrapper: w is the "wrapper for func (T).m" of fn (pointer-receiver wrapper of a value-receiver method, or
// promotion through an embedded field): same parameters after the receiver
func isRecvWrapper(w, fn *ssa.Function) bool {
	return w != nil && w != fn && strings.HasPrefix(w.Synthetic, "wrapper") && wrappedMethod(w) == fn &&
		len(w.Params) == len(fn.Params)
}

// isValueWrapper: w is the closure / thunk behind a method value or a method expression of fn; the calls that
// reach it are calls through function values, which funcvals.go attributes to fn itself (funcVals.uses is keyed by
// the unwrapped method)
func isValueWrapper(w, fn *ssa.Function) bool {
	return w != nil && w != fn && w.Synthetic != "" && !strings.HasPrefix(w.Synthetic, "wrapper") && wrappedMethod(w) == fn
}

// staticSites: the static call sites that enter fn.  direct: calls of fn itself.  wrapped: calls of a receiver
// wrapper of fn (the arguments after the receiver are the same; the receiver is not).  The call inside a wrapper is
// not a site of its own.
func staticSites(cg *callgraph.Graph, fn *ssa.Function) (direct, wrapped []ssa.CallInstruction) {
	seen := map[*ssa.Function]bool{fn: true}
	var walk func(f *ssa.Function, through bool)
	walk = func(f *ssa.Function, through bool) {
		node := cg.Nodes[f]
		if node == nil {
			return
		}
		for _, e := range node.In {
			if e.Site == nil || e.Caller == nil {
				continue
			}
			caller := e.Caller.Func
			if isRecvWrapper(caller, fn) {
				if !seen[caller] {
					seen[caller] = true
					walk(caller, true)
				}
				continue
			}
			if isValueWrapper(caller, fn) {
				continue
			}
			if through {
				wrapped = append(wrapped, e.Site)
			} else {
				direct = append(direct, e.Site)
			}
		}
	}
	walk(fn, false)
	return
}
