// funcvals.go: which functions can a func-typed SSA value evaluate to?  (used by errsites.go for calls through
// function values: a dispatch table held in a package-level map / slice / struct, a function-typed field that is
// assigned in a constructor, closures that are captured or handed on as parameters, method values.)
//
// "Points-to-light": a backward walk over the SSA value flow of the function value, with the memory of the module
// abstracted
//
//	by cell       for locals (Alloc, also through captured variables) and package-level variables (Global),
//	by field      (struct type, field index) for struct fields, whatever the instance,
//	by type       for the elements of maps / slices / arrays (all containers with the same element type are one cell).
//
// Every store of every function of the module (package initialisers and declared init functions included) is
// indexed, so the answer is complete for a closed world.  Where the world is not closed the answer says so
// (open != ""): a parameter of an exported function, an exported variable, an exported field, a container whose
// element type is reachable from the exported surface of the module (so that code outside can put a function of its
// own into it), function values that travel through interfaces, channels or pointers that the walk cannot follow,
// functions of the module that escape to code outside it.  The caller falls back to an "unknown" callee then.
// A whole-program VTA call graph (golang.org/x/tools/go/callgraph/vta, sound for the loaded program) is used as a
// cross-check: a target it reports that the walk did not enumerate makes the answer open as well.
package main

import (
	"go/token"
	"go/types"
	"sort"
	"strings"

	"golang.org/x/tools/go/callgraph"
	"golang.org/x/tools/go/callgraph/vta"
	"golang.org/x/tools/go/ssa"
	"golang.org/x/tools/go/ssa/ssautil"
	"golang.org/x/tools/go/types/typeutil"
)

type fvResult struct {
	fns  []*ssa.Function // possible callees (wrappers of method values / method expressions replaced by the method)
	open string          // "" = the enumeration is complete; else why it is not
}

type funcVals struct {
	prog     *ssa.Program
	cg       *callgraph.Graph // static call graph
	all      map[*ssa.Function]bool
	fns      []*ssa.Function // functions of the module that have a body
	tid      typeutil.Map
	cell     map[ssa.Value][]ssa.Value
	field    map[[2]int][]ssa.Value
	elem     map[int][]ssa.Value
	ptr      map[int][]ssa.Value
	bind     map[*ssa.FreeVar][]ssa.Value
	uses     map[*ssa.Function][]ssa.Instruction // the function used as a value (operand other than the callee position)
	dyn      []ssa.CallInstruction               // calls through function values in the module
	openElem map[int]string
	memo     map[ssa.CallInstruction]*fvResult
	busy     map[ssa.CallInstruction]bool
	vtaOnce  bool
	vtaCG    *callgraph.Graph
}

func inModule(fn *ssa.Function) bool {
	if fn == nil {
		return false
	}
	if fn.Pkg == nil {
		if fn.Parent() != nil {
			return inModule(rootFn(fn))
		}
		return false
	}
	p := fn.Pkg.Pkg.Path()
	return p == mod || strings.HasPrefix(p, mod+"/")
}

func newFuncVals(prog *ssa.Program, cg *callgraph.Graph) *funcVals {
	r := &funcVals{prog: prog, cg: cg, cell: map[ssa.Value][]ssa.Value{}, field: map[[2]int][]ssa.Value{}, elem: map[int][]ssa.Value{},
		ptr: map[int][]ssa.Value{}, bind: map[*ssa.FreeVar][]ssa.Value{}, uses: map[*ssa.Function][]ssa.Instruction{},
		openElem: map[int]string{}, memo: map[ssa.CallInstruction]*fvResult{}, busy: map[ssa.CallInstruction]bool{}}
	r.all = ssautil.AllFunctions(prog)
	for fn := range ssautilAll(prog) { // methods of unexported types that nothing refers to are not "reachable" for AllFunctions
		if fn != nil {
			r.all[fn] = true
		}
	}
	for fn := range r.all {
		if len(fn.Blocks) > 0 && inModule(fn) {
			r.fns = append(r.fns, fn)
		}
	}
	sort.Slice(r.fns, func(i, j int) bool {
		a, b := r.fns[i], r.fns[j]
		if a.Pos() != b.Pos() {
			return a.Pos() < b.Pos()
		}
		return a.String() < b.String()
	})
	for _, fn := range r.fns {
		for _, b := range fn.Blocks {
			for _, ins := range b.Instrs {
				r.index(ins)
			}
		}
	}
	r.indexStores()
	r.surface()
	return r
}

func (r *funcVals) id(t types.Type) int {
	if v := r.tid.At(t); v != nil {
		return v.(int)
	}
	n := r.tid.Len() + 1
	r.tid.Set(t, n)
	return n
}

// cellOf: the cell an address denotes when it is a captured variable
func (r *funcVals) cellOf(v ssa.Value) ssa.Value {
	for i := 0; i < 8; i++ {
		fv, ok := v.(*ssa.FreeVar)
		if !ok {
			break
		}
		b := r.bind[fv]
		if len(b) != 1 {
			break
		}
		v = b[0]
	}
	return v
}

func (r *funcVals) index(ins ssa.Instruction) {
	switch x := ins.(type) {
	case *ssa.MakeClosure:
		cf := x.Fn.(*ssa.Function)
		for i, fv := range cf.FreeVars {
			if i < len(x.Bindings) {
				r.bind[fv] = append(r.bind[fv], x.Bindings[i])
			}
		}
	case *ssa.MapUpdate:
		et := x.Value.Type()
		if mt, ok := x.Map.Type().Underlying().(*types.Map); ok {
			et = mt.Elem()
		}
		r.elem[r.id(et)] = append(r.elem[r.id(et)], x.Value)
	}
	// a function used as a value
	var cc *ssa.CallCommon
	if ci, ok := ins.(ssa.CallInstruction); ok {
		cc = ci.Common()
		if !cc.IsInvoke() && cc.StaticCallee() == nil {
			if _, isB := cc.Value.(*ssa.Builtin); !isB {
				r.dyn = append(r.dyn, ci)
			}
		}
	}
	for i, op := range ins.Operands(nil) {
		if op == nil || *op == nil {
			continue
		}
		if cc != nil && i == 0 && !cc.IsInvoke() {
			continue // callee position
		}
		switch f := (*op).(type) {
		case *ssa.Function:
			if _, isMC := ins.(*ssa.MakeClosure); isMC {
				continue // counted at the uses of the closure value
			}
			r.uses[unwrapSynthetic(f)] = append(r.uses[unwrapSynthetic(f)], ins)
		case *ssa.MakeClosure:
			g := unwrapSynthetic(f.Fn.(*ssa.Function))
			r.uses[g] = append(r.uses[g], ins)
		}
	}
}

// indexStores runs after all closures are known (captured cells are resolved through the bindings)
func (r *funcVals) indexStores() {
	for _, fn := range r.fns {
		for _, b := range fn.Blocks {
			for _, ins := range b.Instrs {
				st, ok := ins.(*ssa.Store)
				if !ok {
					continue
				}
				switch a := r.cellOf(st.Addr).(type) {
				case *ssa.Alloc, *ssa.Global:
					r.cell[a] = append(r.cell[a], st.Val)
				case *ssa.FieldAddr:
					k := [2]int{r.id(deref(a.X.Type())), a.Field}
					r.field[k] = append(r.field[k], st.Val)
				case *ssa.IndexAddr:
					et := deref(a.Type()) // the element type of the container, not the type of the value stored
					r.elem[r.id(et)] = append(r.elem[r.id(et)], st.Val)
				default:
					pt := deref(st.Addr.Type())
					r.ptr[r.id(pt)] = append(r.ptr[r.id(pt)], st.Val)
				}
			}
		}
	}
}

// surface: element types of containers that code outside the module can get hold of (and so write to)
func (r *funcVals) surface() {
	var seen typeutil.Map
	var add func(t types.Type, via string)
	add = func(t types.Type, via string) {
		if t == nil || seen.At(t) != nil {
			return
		}
		seen.Set(t, true)
		switch x := t.(type) {
		case *types.Named:
			if x.Obj().Pkg() == nil || !(x.Obj().Pkg().Path() == mod || strings.HasPrefix(x.Obj().Pkg().Path(), mod+"/")) {
				return
			}
			for i := 0; i < x.NumMethods(); i++ {
				if m := x.Method(i); m.Exported() {
					add(m.Type(), via)
				}
			}
			if st, ok := x.Underlying().(*types.Struct); ok {
				for i := 0; i < st.NumFields(); i++ {
					if st.Field(i).Exported() {
						add(st.Field(i).Type(), via)
					}
				}
			} else {
				add(x.Underlying(), via)
			}
		case *types.Alias:
			add(types.Unalias(x), via)
		case *types.Pointer:
			add(x.Elem(), via)
		case *types.Slice:
			r.markOpen(x.Elem(), via)
			add(x.Elem(), via)
		case *types.Array:
			r.markOpen(x.Elem(), via)
			add(x.Elem(), via)
		case *types.Chan:
			add(x.Elem(), via)
		case *types.Map:
			r.markOpen(x.Elem(), via)
			add(x.Key(), via)
			add(x.Elem(), via)
		case *types.Struct:
			for i := 0; i < x.NumFields(); i++ {
				if x.Field(i).Exported() {
					add(x.Field(i).Type(), via)
				}
			}
		case *types.Signature:
			add(x.Params(), via)
			add(x.Results(), via)
		case *types.Tuple:
			for i := 0; i < x.Len(); i++ {
				add(x.At(i).Type(), via)
			}
		case *types.Interface:
			for i := 0; i < x.NumMethods(); i++ {
				add(x.Method(i).Type(), via)
			}
		}
	}
	pkgs := append([]*ssa.Package(nil), r.prog.AllPackages()...)
	sort.Slice(pkgs, func(i, j int) bool { return pkgs[i].Pkg.Path() < pkgs[j].Pkg.Path() }) // the first reason found is the one reported
	for _, p := range pkgs {
		if p.Pkg == nil || !(p.Pkg.Path() == mod || strings.HasPrefix(p.Pkg.Path(), mod+"/")) {
			continue
		}
		sc := p.Pkg.Scope()
		for _, n := range sc.Names() {
			o := sc.Lookup(n)
			if !o.Exported() {
				continue
			}
			switch o.(type) {
			case *types.Var, *types.Func, *types.TypeName:
				add(o.Type(), p.Pkg.Name()+"."+n)
			}
		}
	}
}

func (r *funcVals) markOpen(elem types.Type, via string) {
	if _, ok := r.openElem[r.id(elem)]; !ok {
		r.openElem[r.id(elem)] = via
	}
}

// unwrapSynthetic: the method behind the wrapper of a method value (p.m) or a method expression (T.m)
func unwrapSynthetic(fn *ssa.Function) *ssa.Function {
	if fn.Synthetic == "" || len(fn.Blocks) == 0 {
		return fn
	}
	var callee *ssa.Function
	n := 0
	for _, b := range fn.Blocks {
		for _, ins := range b.Instrs {
			if c, ok := ins.(ssa.CallInstruction); ok {
				if _, isB := c.Common().Value.(*ssa.Builtin); isB {
					continue // ssa:wrapnilchk in the pointer-receiver wrapper of a value-receiver method
				}
				n++
				callee = c.Common().StaticCallee()
			}
		}
	}
	if n == 1 && callee != nil && (strings.HasPrefix(fn.Synthetic, "bound method wrapper") || strings.HasPrefix(fn.Synthetic, "thunk") || strings.HasPrefix(fn.Synthetic, "wrapper")) {
		return callee
	}
	return fn
}

// callees: the functions a call through a function value can reach
func (r *funcVals) callees(c ssa.CallInstruction) *fvResult {
	if res, ok := r.memo[c]; ok {
		return res
	}
	if r.busy[c] {
		return &fvResult{open: "recursive function value"}
	}
	r.busy[c] = true
	out := map[*ssa.Function]bool{}
	open := ""
	r.resolve(c.Common().Value, map[ssa.Value]bool{}, out, &open)
	delete(r.busy, c)
	res := &fvResult{open: open}
	for f := range out {
		res.fns = append(res.fns, f)
	}
	sort.Slice(res.fns, func(i, j int) bool {
		if res.fns[i].Pos() != res.fns[j].Pos() {
			return res.fns[i].Pos() < res.fns[j].Pos()
		}
		return res.fns[i].String() < res.fns[j].String()
	})
	if res.open == "" {
		// cross-check against VTA (sound for the loaded program): it must not know a callee the walk has missed
		for _, f := range r.vtaCallees(c) {
			if !out[unwrapSynthetic(f)] && !out[f] {
				res.open = "vta reports " + f.String()
				break
			}
		}
	}
	if res.open == "" && len(res.fns) == 0 {
		res.open = "no function value found"
	}
	r.memo[c] = res
	return res
}

func (r *funcVals) vtaCallees(c ssa.CallInstruction) []*ssa.Function {
	if !r.vtaOnce {
		r.vtaOnce = true
		r.vtaCG = vta.CallGraph(r.all, nil)
	}
	var out []*ssa.Function
	if r.vtaCG == nil {
		return nil
	}
	if n := r.vtaCG.Nodes[c.Parent()]; n != nil {
		for _, e := range n.Out {
			if e.Site == c && e.Callee != nil && e.Callee.Func != nil {
				out = append(out, e.Callee.Func)
			}
		}
	}
	return out
}

func setOpen(open *string, why string) {
	if *open == "" {
		*open = why
	}
}

func (r *funcVals) each(vals []ssa.Value, seen map[ssa.Value]bool, out map[*ssa.Function]bool, open *string) {
	for _, v := range vals {
		r.resolve(v, seen, out, open)
	}
}

func (r *funcVals) elems(t types.Type, seen map[ssa.Value]bool, out map[*ssa.Function]bool, open *string) {
	id := r.id(t)
	if via, ok := r.openElem[id]; ok {
		setOpen(open, "container of "+types.TypeString(t, nil)+" reachable from outside the module through "+via)
	}
	r.each(r.elem[id], seen, out, open)
}

func (r *funcVals) resolve(v ssa.Value, seen map[ssa.Value]bool, out map[*ssa.Function]bool, open *string) {
	if v == nil || seen[v] {
		return
	}
	seen[v] = true
	switch x := v.(type) {
	case *ssa.Function:
		out[unwrapSynthetic(x)] = true
	case *ssa.MakeClosure:
		out[unwrapSynthetic(x.Fn.(*ssa.Function))] = true
	case *ssa.Const:
		return // nil function value: the call panics, nothing is returned
	case *ssa.Phi:
		r.each(x.Edges, seen, out, open)
	case *ssa.ChangeType:
		r.resolve(x.X, seen, out, open)
	case *ssa.FreeVar:
		b := r.bind[x]
		if len(b) == 0 {
			setOpen(open, "unbound captured variable")
		}
		r.each(b, seen, out, open)
	case *ssa.UnOp:
		if x.Op != token.MUL {
			setOpen(open, "received from a channel")
			return
		}
		r.load(x, seen, out, open)
	case *ssa.Lookup:
		if _, isMap := x.X.Type().Underlying().(*types.Map); !isMap {
			setOpen(open, "lookup")
			return
		}
		if x.CommaOk {
			r.elems(x.Type().(*types.Tuple).At(0).Type(), seen, out, open)
		} else {
			r.elems(x.Type(), seen, out, open)
		}
	case *ssa.Index:
		r.elems(x.Type(), seen, out, open)
	case *ssa.Field:
		r.fieldVals(x.X.Type(), x.Field, seen, out, open)
	case *ssa.Extract:
		switch t := x.Tuple.(type) {
		case *ssa.Lookup:
			if x.Index == 0 {
				r.elems(x.Type(), seen, out, open)
			}
		case *ssa.Next:
			if x.Index == 2 {
				r.elems(x.Type(), seen, out, open)
			}
		case *ssa.Call:
			r.results(t, x.Index, seen, out, open)
		case *ssa.TypeAssert:
			r.resolve(t.X, seen, out, open)
		default:
			setOpen(open, "tuple")
		}
	case *ssa.Call:
		r.results(x, 0, seen, out, open)
	case *ssa.TypeAssert:
		r.resolve(x.X, seen, out, open)
	case *ssa.MakeInterface:
		r.resolve(x.X, seen, out, open)
	case *ssa.Parameter:
		r.param(x, seen, out, open)
	default:
		setOpen(open, "function value of an untracked kind")
	}
}

func (r *funcVals) fieldVals(structT types.Type, fld int, seen map[ssa.Value]bool, out map[*ssa.Function]bool, open *string) {
	t := deref(structT)
	st, _ := t.Underlying().(*types.Struct)
	if st == nil || fld >= st.NumFields() {
		setOpen(open, "field")
		return
	}
	if st.Field(fld).Exported() {
		nt, named := t.(*types.Named)
		if !named || nt.Obj().Exported() {
			setOpen(open, "exported field "+st.Field(fld).Name())
		}
	}
	r.each(r.field[[2]int{r.id(t), fld}], seen, out, open)
}

func (r *funcVals) load(x *ssa.UnOp, seen map[ssa.Value]bool, out map[*ssa.Function]bool, open *string) {
	switch a := r.cellOf(x.X).(type) {
	case *ssa.Alloc:
		r.each(r.cell[a], seen, out, open)
		r.escaped(a, x.Type(), seen, out, open)
	case *ssa.Global:
		if a.Object() != nil && a.Object().Exported() {
			setOpen(open, "exported variable "+a.Name())
		}
		if !inModuleGlobal(a) {
			setOpen(open, "variable of another module "+a.Name())
		}
		r.each(r.cell[a], seen, out, open)
		r.each(r.ptr[r.id(x.Type())], seen, out, open)
	case *ssa.FieldAddr:
		r.fieldVals(a.X.Type(), a.Field, seen, out, open)
		r.each(r.ptr[r.id(x.Type())], seen, out, open)
	case *ssa.IndexAddr:
		r.elems(x.Type(), seen, out, open)
		r.each(r.ptr[r.id(x.Type())], seen, out, open)
	case *ssa.FreeVar:
		setOpen(open, "captured variable with several bindings")
	default:
		setOpen(open, "load through a pointer")
	}
}

func inModuleGlobal(g *ssa.Global) bool {
	if g.Pkg == nil {
		return false
	}
	p := g.Pkg.Pkg.Path()
	return p == mod || strings.HasPrefix(p, mod+"/")
}

// escaped: a local whose address is handed on can be written through that pointer
func (r *funcVals) escaped(a *ssa.Alloc, t types.Type, seen map[ssa.Value]bool, out map[*ssa.Function]bool, open *string) {
	if a.Referrers() == nil {
		return
	}
	for _, ref := range *a.Referrers() {
		switch ref.(type) {
		case *ssa.Store, *ssa.UnOp, *ssa.MakeClosure, *ssa.DebugRef:
			if st, ok := ref.(*ssa.Store); ok && st.Val == ssa.Value(a) {
				r.each(r.ptr[r.id(t)], seen, out, open)
			}
		case *ssa.FieldAddr, *ssa.IndexAddr:
		default:
			r.each(r.ptr[r.id(t)], seen, out, open)
			if c, ok := ref.(ssa.CallInstruction); ok {
				if f := c.Common().StaticCallee(); f == nil || !inModule(f) {
					setOpen(open, "address of a local handed to code outside the module")
				}
			}
		}
	}
}

// results: what a call returns at result idx
func (r *funcVals) results(c *ssa.Call, idx int, seen map[ssa.Value]bool, out map[*ssa.Function]bool, open *string) {
	cc := c.Common()
	if cc.IsInvoke() {
		setOpen(open, "result of an interface method call")
		return
	}
	var callees []*ssa.Function
	if f := cc.StaticCallee(); f != nil {
		callees = []*ssa.Function{f}
	} else if _, isB := cc.Value.(*ssa.Builtin); isB {
		setOpen(open, "result of a builtin")
		return
	} else {
		res := r.callees(c)
		if res.open != "" {
			setOpen(open, res.open)
		}
		callees = res.fns
	}
	for _, f := range callees {
		if !inModule(f) || len(f.Blocks) == 0 {
			setOpen(open, "result of "+f.String())
			continue
		}
		for _, b := range f.Blocks {
			for _, ins := range b.Instrs {
				if ret, ok := ins.(*ssa.Return); ok && idx < len(ret.Results) {
					r.resolve(ret.Results[idx], seen, out, open)
				}
			}
		}
	}
}

// escapesModule: the function is handed, as a value, to code outside the module (which may call it with arguments
// of its own), or is exported
func (r *funcVals) escapesModule(fn *ssa.Function) string {
	if fn.Parent() == nil && fn.Synthetic == "" && isExportedFn(fn) {
		return "parameter of the exported " + fn.String()
	}
	for _, u := range r.uses[fn] {
		if c, ok := u.(ssa.CallInstruction); ok {
			cc := c.Common()
			if cc.IsInvoke() {
				return fn.String() + " handed to an interface method"
			}
			if f := cc.StaticCallee(); f != nil && !inModule(f) {
				return fn.String() + " handed to " + f.String()
			}
		}
		if _, ok := u.(*ssa.MakeInterface); ok {
			return fn.String() + " converted to an interface"
		}
	}
	return ""
}

// argFor: the argument a call site passes for parameter idx of fn (fn.Params counts the receiver first); a method
// reached through a method value has its receiver bound, so the arguments are shifted by one
func argFor(c ssa.CallInstruction, fn *ssa.Function, idx int) (ssa.Value, bool) {
	args := c.Common().Args
	off := len(fn.Params) - len(args)
	if off == 1 && !(fn.Signature.Recv() != nil && c.Common().StaticCallee() == nil) {
		return nil, false
	}
	if off < 0 || off > 1 || idx-off < 0 || idx-off >= len(args) {
		return nil, false
	}
	return args[idx-off], true
}

// callSites: the call instructions that can enter fn: static calls, and, when fn is used as a value, the calls
// through function values of the module that can reach it.  open != "" when other callers are possible (fn is
// exported or handed to code outside the module, or a call through a function value that could not be enumerated
// passes the right number of arguments).
func (r *funcVals) callSites(fn *ssa.Function) (static, dynamic []ssa.CallInstruction, open string) {
	open = r.escapesModule(fn)
	if n := r.cg.Nodes[fn]; n != nil {
		for _, e := range n.In {
			if e.Site != nil && !e.Site.Common().IsInvoke() {
				static = append(static, e.Site)
			}
		}
	}
	if len(r.uses[fn]) == 0 {
		return
	}
	for _, c := range r.dyn {
		if _, ok := argFor(c, fn, len(fn.Params)-1); !ok && len(fn.Params) > 0 {
			continue
		}
		if len(fn.Params) == 0 && len(c.Common().Args) != 0 {
			continue
		}
		res := r.memo[c]
		if res == nil && !r.busy[c] {
			res = r.callees(c)
		}
		if res == nil || res.open != "" {
			if cs, ok := c.Common().Value.Type().Underlying().(*types.Signature); ok && types.Identical(cs.Results(), fn.Signature.Results()) {
				dynamic = append(dynamic, c) // may or may not reach fn: counted (over-approximation), and the world is open
				if open == "" {
					open = "a call through a function value that is not enumerable may reach " + fn.String()
				}
			}
			continue
		}
		for _, t := range res.fns {
			if t == fn {
				dynamic = append(dynamic, c)
			}
		}
	}
	return
}

func (r *funcVals) param(p *ssa.Parameter, seen map[ssa.Value]bool, out map[*ssa.Function]bool, open *string) {
	fn := p.Parent()
	idx := paramIndex(fn, p)
	if idx < 0 || !inModule(fn) {
		setOpen(open, "parameter")
		return
	}
	st, dy, why := r.callSites(fn)
	if why != "" {
		setOpen(open, why)
	}
	if len(st)+len(dy) == 0 && why == "" {
		setOpen(open, "parameter of a function without callers")
	}
	for _, c := range append(st, dy...) {
		if a, ok := argFor(c, fn, idx); ok {
			r.resolve(a, seen, out, open)
		} else if idx == 0 && fn.Signature.Recv() != nil {
			setOpen(open, "receiver of a method value")
		}
	}
}
